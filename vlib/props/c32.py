"""C32 -- verify() module names are deterministic and input-sensitive.

E1: every (cdef list, C source, keyword arguments) triple over an alphabet that
contains the separators the key is built with.  For each triple a
cffi.verifier.Verifier is instantiated (nothing is written or compiled) and the
bytes it feeds to CRC32 are observed through a stand-in for `binascii` in the
namespace of cffi.verifier.

* injectivity: all triples that produce the same hashed key must be the same
  input (modulo: keyword order, bool vs int, tuple vs list -- see EQUIVALENCE);
* names: equal keys give equal names; distinct keys share a name only if both
  CRC32 halves really collide;
* determinism: the names are recomputed in 4 fresh interpreters with other
  PYTHONHASHSEED values, two of them building every dict in reverse order;
* ffiplatform.flatten is separately checked for injectivity on all nested
  values up to depth 2.
"""
import itertools
import os
import subprocess
import zlib

from .. import build, pool
from ..build import InfraError

ID = "C32"
LEVEL = "exploration"
META = dict(
    engine="E1-enum", level="exploration",
    technique="exhaustive enumeration of (cdef list, source, kwargs) triples over a separator-containing alphabet; "
              "observed CRC inputs grouped for collisions; names recomputed in fresh interpreters under other hash seeds",
    text="All triples with strings of <= 2 symbols over {a, NUL, 0d, 1sa}, cdef lists of <= 2 strings, and keyword "
         "dictionaries over 2 keys x 29 values (absent, str, int, bool, list, tuple, nested list/dict) are fed to "
         "cffi.verifier.Verifier; the byte string it hashes is observed and any two non-equivalent inputs with the "
         "same key are reported, classified by cause (NUL join / flatten / other).  Names are compared with 4 fresh "
         "processes (other PYTHONHASHSEED, reversed keyword order).  flatten() is checked on ~200k nested values.",
    note="cdef lists of arbitrary strings are installed as ffi._cdefsources (Verifier reads nothing else); a family of "
         "valid cdef texts goes through the real ffi.cdef() and confirms that it stores exactly the text passed")

EQUIVALENCE = ("inputs are compared modulo (1) order of keyword arguments and of keys in nested dicts -- the statement "
               "demands independence of keyword order; (2) True == 1 and False == 0 -- equal Python values, hash-equal, "
               "interchangeable as dict keys, so the statement's 'different inputs' cannot tell them apart; (3) tuple vs "
               "list with equal elements -- both are 'a sequence of values' for every consumer of these keywords and "
               "the statement speaks of keyword arguments, not of their container types.  Nothing else is identified: "
               "'1' vs 1, ['a'] vs 'a', [] vs {} vs absent, nesting depth and string contents are all distinct.")

SYMBOLS = ["a", "\x00", "0d", "1sa"]
K1, K2 = "libraries", "extra_compile_args"
ABSENT = ("absent",)


def strings(maxlen, symbols=SYMBOLS):
    out = []
    for n in range(maxlen + 1):
        for t in itertools.product(symbols, repeat=n):
            s = "".join(t)
            if s not in out:
                out.append(s)
    return out


def lists_of(items, maxlen):
    out = []
    for n in range(maxlen + 1):
        out.extend(itertools.product(items, repeat=n))
    return out


# value descriptors are built from plain tuples so that they can be ordered, pickled and rebuilt
# in either key order:  ("s", str) ("i", int) ("b", bool) ("l", items) ("t", items) ("d", ((key, val), ...))
def S(x):
    return ("s", x)


def I(x):
    return ("i", x)


def B(x):
    return ("b", x)


def Li(*xs):
    return ("l", tuple(xs))


def Tu(*xs):
    return ("t", tuple(xs))


def Di(*kv):
    return ("d", tuple(kv))


VALUES = [
    ABSENT, S("a"), S("\x000d"), S("1sa"), S("aa"), S(""),
    I(1), B(True), I(0), B(False), I(10), I(-1),
    Li(S("a")), Tu(S("a")), Li(), Tu(), Li(S("a"), S("a")), Li(Li(S("a"))), Li(Tu(S("a"))),
    Li(S("1sa")), Li(I(1)), Li(B(True)), Li(S("\x00")), Li(S("a"), S("sb")), Li(S("as"), S("b")),
    Di(), Di(("a", I(1))), Di(("a", Li(S("a")))), Di(("a", I(1)), ("b", I(1))),
]
VALUES_SMALL = [ABSENT, S("a"), S("\x000d"), Li(S("a")), I(1)]


def materialize(d, reverse=False):
    k = d[0]
    if k in ("s", "i", "b"):
        return d[1]
    if k == "l":
        return [materialize(x, reverse) for x in d[1]]
    if k == "t":
        return tuple(materialize(x, reverse) for x in d[1])
    if k == "d":
        items = list(d[1])
        if reverse:
            items.reverse()
        return {kk: materialize(v, reverse) for kk, v in items}
    raise AssertionError(d)


def canon(d):
    """Canonical form under EQUIVALENCE."""
    k = d[0]
    if k == "s":
        return ("s", d[1])
    if k in ("i", "b"):
        return ("i", int(d[1]))
    if k in ("l", "t"):
        return ("l", tuple(canon(x) for x in d[1]))
    if k == "d":
        return ("d", tuple(sorted((kk, canon(v)) for kk, v in d[1])))
    raise AssertionError(d)


def kw_desc(v1, v2):
    items = []
    if v1 != ABSENT:
        items.append((K1, v1))
    if v2 != ABSENT:
        items.append((K2, v2))
    return ("d", tuple(items))


def has_nul(d):
    k = d[0]
    if k == "s":
        return "\x00" in d[1]
    if k in ("l", "t"):
        return any(has_nul(x) for x in d[1])
    if k == "d":
        return any("\x00" in kk or has_nul(v) for kk, v in d[1])
    return False


# ---------------------------------------------------------------------------
# the space: a list of (family, cdefs tuple, source, kwargs descriptor)

REAL_TEXTS = ["", "//a", "//a\x00//a", "//a\x00", "int f(void);", "//0d"]


class Space(object):
    """Indexable, never materialised: workers and child interpreters compute triple i on their own."""
    def __init__(self, quick):
        S2 = strings(2)
        S1 = strings(1)
        L2 = lists_of(S2, 2)                      # 463 cdef lists
        kw_small = [kw_desc(a, b) for a in VALUES_SMALL for b in (ABSENT, Tu(S("a")))][:6]
        kw_full = [kw_desc(a, b) for a in VALUES for b in VALUES]
        self.parts = []
        if quick:
            kwa = kw_small
            self.parts.append(("A", L2, S2, kwa))
            self.parts.append(("B", lists_of(S1, 1), S1, [k for k in kw_full if k not in kwa]))
        else:
            kwa = [kw_desc(a, b) for a in VALUES for b in (ABSENT, Tu(S("a")))]
            self.parts.append(("A", L2, S2, kwa))
            # family B repeats no triple of family A: its keyword dicts exclude A's
            self.parts.append(("B", lists_of(S1, 2), S2, [k for k in kw_full if k not in kwa]))
        self.parts.append(("R", lists_of(REAL_TEXTS, 2), S1, kw_small))
        self.sizes = [len(p[1]) * len(p[2]) * len(p[3]) for p in self.parts]
        self.n = sum(self.sizes)
        self.nkw_a = len(kwa)

    def __len__(self):
        return self.n

    def __getitem__(self, i):
        for (fam, ls, ss, ks), size in zip(self.parts, self.sizes):
            if i < size:
                rest, ki = divmod(i, len(ks))
                li, si = divmod(rest, len(ss))
                return (fam, tuple(ls[li]), ss[si], ks[ki])
            i -= size
        raise IndexError(i)

    def family_sizes(self):
        return {p[0]: n for p, n in zip(self.parts, self.sizes)}


def space(quick):
    return Space(quick)


def triple_canon(t):
    return (t[1], t[2], canon(t[3]))


def triple_has_nul(t):
    return any("\x00" in c for c in t[1]) or "\x00" in t[2] or has_nul(t[3])


def triple_size(t):
    return (sum(len(c) for c in t[1]) + len(t[2]) + len(repr(t[3])), len(t[1]), repr(t))


# ---------------------------------------------------------------------------
# observing the key

class CrcRecorder(object):
    """Stand-in for the `binascii` module inside cffi.verifier: records what is hashed."""
    def __init__(self, real):
        self._real = real
        self.seen = []

    def __getattr__(self, name):
        return getattr(self._real, name)

    def crc32(self, data, *a):
        self.seen.append(bytes(data))
        return self._real.crc32(data, *a)


_P = {}


def setup_process():
    if _P:
        return _P
    import binascii
    import cffi
    import cffi.verifier as cv
    rec = CrcRecorder(binascii)
    cv.binascii = rec
    _P.clear()
    _P.update(pid=os.getpid(), rec=rec, cv=cv, cffi=cffi, seam_ffi=cffi.FFI(), real={},
              tmp=os.path.join(build.scratch(), "c32-verify-tmp"))
    return _P


def interleave(h0, h1):
    out = bytearray(len(h0) + len(h1))
    out[0::2] = h0
    out[1::2] = h1
    return bytes(out)


def ffi_for(P, fam, cdefs):
    """FFI whose cdef sources are `cdefs`.  Family R: through the real ffi.cdef(); other families: the
    list is installed directly (the strings are not C, cdef() would refuse them)."""
    if fam == "R":
        ffi = P["real"].get(cdefs)
        if ffi is None:
            ffi = P["cffi"].FFI()
            try:
                for c in cdefs:
                    ffi.cdef(c)
            except Exception as e:
                ffi = "cdef refused: %s" % type(e).__name__
            P["real"][cdefs] = ffi
        return ffi
    ffi = P["seam_ffi"]
    ffi._cdefsources = list(cdefs)
    return ffi


def compute(t, reverse=False, want_key=True):
    """-> (key bytes | None, module name) or ("excluded", reason)"""
    P = setup_process()
    fam, cdefs, src, kw = t
    ffi = ffi_for(P, fam, cdefs)
    if isinstance(ffi, str):
        return ("excluded", ffi)
    if fam == "R" and list(ffi._cdefsources) != list(cdefs):
        return ("seam", list(ffi._cdefsources))
    kwargs = materialize(kw, reverse)
    rec = P["rec"]
    del rec.seen[:]
    v = P["cv"].Verifier(ffi, src, tmpdir=P["tmp"], **kwargs)
    name = v.get_module_name()
    if not want_key:
        return (None, name)
    if len(rec.seen) != 2:
        return ("nokey", len(rec.seen), name)
    return (interleave(rec.seen[0], rec.seen[1]), name)



# ---------------------------------------------------------------------------
# every bit of both CRC32 values reaches the name

def crc_bit_family():
    """Pairs of inputs whose hashed keys have CRC32 pairs that differ in EXACTLY one bit (64 pairs) or in the same
    bit of both CRCs (32 pairs): "different inputs share a name only through a CRC32 collision" means such a pair
    must get two names.  The pairs are constructed, not searched: CRC32 is affine over GF(2) for messages of one
    length, so toggling 'a' <-> 'c' at chosen source positions changes the two CRCs by a XOR-sum of per-position
    vectors; Gaussian elimination picks the positions for each target bit.  Everything is verified on the key the
    real Verifier hashes.  Returns (number of pairs judged, list of (why, detail))."""
    N = 160
    base = "a" * N
    fam = "A"
    t0 = (fam, (), base, ("d", ()))
    r0 = compute(t0)
    if not isinstance(r0[0], bytes):
        raise InfraError("crc-bit family: key not observable: %r" % (r0,))
    key0, name0 = r0
    at = key0.find(b"\x00" + base.encode() + b"\x00")
    if at < 0:
        raise InfraError("crc-bit family: source text not found in the hashed key")
    at += 1

    def crcs(key):
        return (zlib.crc32(key[0::2]) & 0xffffffff, zlib.crc32(key[1::2]) & 0xffffffff)

    def toggled(key, positions):
        b = bytearray(key)
        for j in positions:
            b[at + j] ^= 0x02            # 'a' (0x61) <-> 'c' (0x63)
        return bytes(b)
    c0 = crcs(key0)
    # unit vectors: effect of toggling source position j on the 64-bit (crc_even << 32 | crc_odd)
    unit = []
    for j in range(N):
        c = crcs(toggled(key0, [j]))
        unit.append(((c[0] ^ c0[0]) << 32) | (c[1] ^ c0[1]))
    # Gaussian elimination over GF(2): basis[bit] = (vector, set of positions)
    basis = {}
    for j, v in enumerate(unit):
        comb = {j}
        while v:
            hb = v.bit_length() - 1
            if hb not in basis:
                basis[hb] = (v, comb)
                break
            bv, bc = basis[hb]
            v ^= bv
            comb = comb ^ bc
    if len(basis) < 64:
        raise InfraError("crc-bit family: toggles span only %d of 64 bits" % len(basis))

    def solve(target):
        comb = set()
        v = target
        while v:
            hb = v.bit_length() - 1
            bv, bc = basis[hb]
            v ^= bv
            comb ^= bc
        return sorted(comb)
    targets = [("crc_even", 1 << (32 + b), b) for b in range(32)] + [("crc_odd", 1 << b, b) for b in range(32)]
    targets += [("both", (1 << (32 + b)) | (1 << b), b) for b in range(32)]
    bad = []
    for which, tv, b in targets:
        pos = solve(tv)
        src = "".join("c" if j in set(pos) else "a" for j in range(N))
        r1 = compute((fam, (), src, ("d", ())))
        if not isinstance(r1[0], bytes):
            raise InfraError("crc-bit family: key not observable for the toggled source")
        key1, name1 = r1
        c1 = crcs(key1)
        diff = ((c1[0] ^ c0[0]) << 32) | (c1[1] ^ c0[1])
        if key1 != toggled(key0, pos) or diff != tv:
            raise InfraError("crc-bit family: constructed key does not differ in the intended CRC bit")
        if name1 == name0:
            bad.append(("crc-bit-does-not-reach-the-name",
                        {"which": which, "bit": b, "name": name0, "crc32_pair_a": list(c0), "crc32_pair_b": list(c1),
                         "source_a": base, "source_b": src}))
    return len(targets), bad


def work(block):
    import collections
    start, stop = block
    sp = _P_SPACE["space"]
    out = []
    hist = collections.Counter()
    for i in range(start, stop):
        t = sp[i]
        out.append(compute(t))
        hist["family_" + t[0]] += 1
        hist["cdefs_%d" % len(t[1])] += 1
        hist["has_nul" if triple_has_nul(t) else "no_nul"] += 1
        hist["kwargs_%d_keys" % len(t[3][1])] += 1
    return start, out, hist


_P_SPACE = {}


# ---------------------------------------------------------------------------
# fresh interpreters

def child_main(argv):
    """python -c '...child_main' <tier> <order> <start> <stop> <outfile>: one module name per triple."""
    tier, order, start, stop, outfile = argv
    sp = space(tier == "quick")
    rev = order == "reversed"
    with open(outfile, "w") as f:
        for i in range(int(start), int(stop)):
            r = compute(sp[i], reverse=rev, want_key=False)
            f.write("%s\n" % (r[1] if r[0] is None else "!" + r[0]))
        f.write("END\n")


CHILD_CONFIGS = (("1", "same"), ("2", "reversed"), ("1000003", "same"), ("4294967295", "reversed"))


def start_children(ctx, base, n):
    """4 configurations (hash seed, keyword order); each is a group of fresh interpreters that
    split the index range between them (1 per configuration in the quick tier)."""
    nshard = 1 if ctx.quick else 4
    kids = []
    for seed, order in CHILD_CONFIGS:
        for k in range(nshard):
            start, stop = n * k // nshard, n * (k + 1) // nshard
            out = os.path.join(base, "names-%s-%s-%d.txt" % (seed, order, k))
            env = dict(os.environ)
            env["PYTHONHASHSEED"] = seed
            cmd = [build.PY, "-c", "import sys; from vlib.props import c32; c32.child_main(sys.argv[1:])",
                   ctx.tier, order, str(start), str(stop), out]
            p = subprocess.Popen(cmd, env=env, cwd=build.VERIF, stdout=subprocess.PIPE, stderr=subprocess.STDOUT)
            kids.append((seed, order, start, stop, out, p))
    return kids


# ---------------------------------------------------------------------------
# flatten() alone

def flatten_values():
    """Nested values up to depth 2.  The string atoms contain the characters the encoding itself is
    made of (digits, 's', 'l', 'd', 'i') in every position, so a missing length/count prefix or a
    missing type letter makes two different values meet."""
    atoms = [S("a"), S(""), S("1sa"), S("\x00"), S("s"), S("as"), S("sa"), S("1"), S("l"), S("1i"), S("0d"),
             I(0), I(1), I(-1), I(10), B(True), B(False)]
    v1 = list(atoms)
    for n in range(3):
        for t in itertools.product(atoms, repeat=n):
            v1.append(("l", t))
            if n < 2:
                v1.append(("t", t))
    v1.append(Di())
    for a in atoms:
        v1.append(Di(("a", a)))
        v1.append(Di(("1sa", a)))
    for a in atoms[:8]:
        for b in atoms[:8]:
            v1.append(Di(("a", a), ("1sa", b)))
    v2 = list(v1)
    for a in v1:
        v2.append(("l", (a,)))
        v2.append(Di(("a", a)))
    for a in v1:
        for b in v1:
            v2.append(("l", (a, b)))
    return v2


# ---------------------------------------------------------------------------

def classify_collision(group, prefix_ok):
    """group: list of triples with the same key but pairwise different canonical forms."""
    a, b = group[0], group[1]
    ka, kb = canon(a[3]), canon(b[3])
    import cffi.ffiplatform as fp
    fa, fb = fp.flatten(materialize(a[3])), fp.flatten(materialize(b[3]))
    if ka != kb and fa == fb:
        return "flatten-not-injective"
    if prefix_ok and any(triple_has_nul(t) for t in group):
        return "input-string-contains-nul"
    return "other"


def run(ctx):
    import collections
    sp = space(ctx.quick)
    _P_SPACE["space"] = sp
    base = build.scratch_shared()
    ctx.log("%d triples (%s)" % (len(sp), ", ".join("%s=%d" % kv for kv in sorted(sp.family_sizes().items()))))
    kids = start_children(ctx, base, len(sp))
    for i in range(0, len(sp), max(1, len(sp) // 40)):
        ctx.sample({"family": sp[i][0], "cdefs": list(sp[i][1]), "source": sp[i][2], "kwargs": repr(materialize(sp[i][3]))})
    step = 3000
    blocks = [(s, min(len(sp), s + step)) for s in range(0, len(sp), step)]
    res = [None] * len(sp)
    for block, r in pool.pmap(work, [[b] for b in blocks], nproc=8 if ctx.quick else None):
        if isinstance(r, (pool.WorkerError, pool.Crash)):
            raise InfraError("worker failed: %r" % (r,))
        start, out, hist = r
        res[start:start + len(out)] = out
        for k, v in hist.items():
            ctx.count(k, v)
    ctx.log("keys computed")
    bykey = collections.defaultdict(list)
    excluded = 0
    for i, r in enumerate(res):
        if r is None:
            raise InfraError("triple %d not evaluated" % i)
        if r[0] == "excluded":
            excluded += 1
            ctx.count("excluded:" + r[1])
            continue
        if r[0] == "seam":
            raise InfraError("ffi.cdef() did not store the text it was given: %r -> %r" % (sp[i][1], r[1]))
        if r[0] == "nokey":
            ctx.violation({"kind": "key-not-observable", "crc_calls": r[1]},
                          {"triple": sp[i], "what": "Verifier did not hash exactly two byte strings"})
            continue
        bykey[r[0]].append(i)
    # the observed key must have the shape  <version stuff> NUL source NUL <flattened kwargs> NUL cdef NUL cdef ...
    # for the NUL-join explanation of a collision to be a theorem rather than a guess
    import cffi.ffiplatform as fp

    def shape_ok(i, key):
        t = sp[i]
        tail = "".join("\x00" + c for c in t[1]).encode("utf-8")
        mid = ("\x00" + t[2] + "\x00" + fp.flatten(materialize(t[3]))).encode("utf-8")
        return key.endswith(mid + tail)

    # ---- injectivity
    ngroups = 0
    collisions = []
    for key, idxs in bykey.items():
        if len(idxs) == 1:
            continue
        canons = {}
        for i in idxs:
            canons.setdefault(triple_canon(sp[i]), []).append(i)
        if len(canons) == 1:
            ctx.count("same_key:equivalent_inputs_only")
            continue
        ngroups += 1
        reps = sorted((min(v, key=lambda i: triple_size(sp[i])) for v in canons.values()), key=lambda i: triple_size(sp[i]))
        collisions.append((triple_size(sp[reps[0]]), key, reps))
    collisions.sort()
    for _, key, reps in collisions:
        group = [sp[i] for i in reps]
        cause = classify_collision(group, all(shape_ok(i, key) for i in reps))
        ctx.count("collision:" + cause)
        ctx.violation({"kind": "key-collision", "cause": cause},
                      {"kind": "key-collision", "key": key, "inputs": group[:4], "distinct_inputs_in_group": len(reps)})
    if collisions:
        _, key, reps = collisions[0]
        ctx.log("smallest colliding inputs: %r and %r" % (sp[reps[0]], sp[reps[1]]))
    # ---- names
    byname = collections.defaultdict(set)
    for i, r in enumerate(res):
        if r[0] in ("excluded",) or not isinstance(r[0], bytes):
            continue
        byname[r[1]].add(r[0])
    key_names = collections.defaultdict(set)
    for i, r in enumerate(res):
        if isinstance(r[0], bytes):
            key_names[r[0]].add(r[1])
    for key, names in key_names.items():
        if len(names) > 1:
            i = bykey[key][0]
            ctx.violation({"kind": "same-key-different-names"}, {"kind": "same-key", "triple": sp[i], "names": sorted(names)})
    for name, keys in byname.items():
        if len(keys) > 1:
            crcs = {(zlib.crc32(k[0::2]) & 0xffffffff, zlib.crc32(k[1::2]) & 0xffffffff) for k in keys}
            if len(crcs) == 1:
                ctx.count("name_shared:true_crc32_collision")
            else:
                ks = sorted(keys)[:2]
                ctx.violation({"kind": "name-shared-without-crc32-collision"},
                              {"kind": "name-shared", "name": name, "inputs": [sp[bykey[k][0]] for k in ks]})
    nbits, badbits = crc_bit_family()
    ctx.count("crc_bit_pairs", nbits)
    for why, det in badbits:
        ctx.violation({"kind": why, "which": det["which"], "high_nibble": det["bit"] >= 28}, dict(det, kind="crc-bit"))
    ctx.count("distinct_keys", len(bykey))
    ctx.count("distinct_names", len(byname))
    # ---- flatten alone
    vals = flatten_values()
    merged = {}
    for i, d in enumerate(vals):
        text = fp.flatten(materialize(d))
        c = canon(d)
        e = merged.get(text)
        if e is None:
            merged[text] = (c, i, 1)
        elif e[0] != c and len(e) == 3:
            merged[text] = (e[0], e[1], e[2] + 1, i)       # two different values, same text
        else:
            merged[text] = (e[0], e[1], e[2] + 1) + tuple(e[3:])
    nflat_equiv = 0
    for s in sorted(merged):
        e = merged[s]
        if len(e) > 3:
            ctx.violation({"kind": "flatten-collision"},
                          {"kind": "flatten", "text": s, "values": [vals[e[1]], vals[e[3]]]})
        elif e[2] > 1:
            nflat_equiv += 1
    ctx.count("flatten:values", len(vals))
    ctx.count("flatten:distinct_outputs", len(merged))
    ctx.count("flatten:outputs_shared_by_equivalent_values", nflat_equiv)
    ctx.log("flatten checked on %d values" % len(vals))
    # ---- determinism across processes
    mine = [("!" + r[0]) if not isinstance(r[0], bytes) else r[1] for r in res]
    for seed, order, start, stop, out, p in kids:
        try:
            stdout, _ = p.communicate(timeout=1500)
        except subprocess.TimeoutExpired:
            p.kill()
            raise InfraError("child interpreter (seed %s) did not finish" % seed)
        if p.returncode != 0:
            raise InfraError("child interpreter (seed %s, %s) failed:\n%s" % (seed, order, stdout.decode("utf-8", "replace")[-2000:]))
        with open(out) as f:
            theirs = f.read().split("\n")
        if theirs[-2:] != ["END", ""] or len(theirs) - 2 != stop - start:
            raise InfraError("child interpreter output incomplete (seed %s)" % seed)
        ndiff = 0
        for i in range(start, stop):
            a, b = mine[i], theirs[i - start]
            if a != b:
                ndiff += 1
                ctx.violation({"kind": "name-differs-across-processes", "keyword_order": order,
                               "kwargs_keys": len(sp[i][3][1])},
                              {"kind": "determinism", "triple": sp[i], "hashseed": seed, "order": order,
                               "name_seed0": a, "name_child": b})
        ctx.count("process_seed%s_%s:names_compared" % (seed, order), stop - start)
        ctx.count("process_seed%s_%s:names_different" % (seed, order), ndiff)
    nontrivial = sum(1 for key, idxs in bykey.items() if len(idxs) > 1) + 0
    multi = sum(len(idxs) for idxs in bykey.values() if len(idxs) > 1)
    cov = {
        "evaluations": len(sp) * 5 + len(vals),
        "distinct_nontrivial": multi,
        "rule": "triples = (cdef list, source, kwargs); strings = concatenations of <= 2 symbols of {a, NUL, '0d', '1sa'} "
                "('0d' and '1sa' are what flatten() writes for {} and 'a'); family A = all cdef lists of <= 2 strings x all "
                "sources x %d keyword dicts; family B = %s x all dicts over 2 keys x 29 values (absent, str, int, bool, "
                "list, tuple, nested list/tuple/dict); family R = lists of <= 2 valid cdef texts passed through the real "
                "ffi.cdef().  Each triple is evaluated in this process (key observed) and in 4 fresh interpreters; "
                "non-trivial = the triple shares its hashed key with at least one other triple, i.e. the equivalence / "
                "collision judgement was actually exercised on it (distinct triples counted)" % (
                    6 if ctx.quick else 54, "cdef lists of <= 1 one-symbol string x one-symbol sources" if ctx.quick
                    else "cdef lists of <= 2 one-symbol strings x all sources"),
        "exhaustive": True,
        "triples": len(sp),
        "excluded_cdef_refused": excluded,
        "distinct_keys": len(bykey),
        "keys_shared_by_several_triples": nontrivial,
        "collision_groups": ngroups,
        "flatten_values": len(vals),
        "equivalence": EQUIVALENCE,
    }
    return ctx.finish(cov, [
        "only one Python version is available, the version component of the key is not varied",
        "arbitrary cdef strings are installed as ffi._cdefsources; family R shows ffi.cdef() stores its argument verbatim",
        EQUIVALENCE])


def replay(detail):
    kind = detail.get("kind")
    if kind == "flatten":
        import cffi.ffiplatform as fp
        a, b = [materialize(_tuplify(v)) for v in detail["values"]]
        fa, fb = fp.flatten(a), fp.flatten(b)
        print("flatten(%r) = %r\nflatten(%r) = %r" % (a, fa, b, fb))
        return 1 if fa == fb else 0
    if kind == "crc-bit":
        na = compute(("A", (), detail["source_a"], ("d", ())), want_key=False)[1]
        nb = compute(("A", (), detail["source_b"], ("d", ())), want_key=False)[1]
        print("source a: %s\nsource b: %s\nCRC32 pairs %s vs %s\nnames: %s / %s" % (
            detail["source_a"], detail["source_b"], detail["crc32_pair_a"], detail["crc32_pair_b"], na, nb))
        return 1 if na == nb else 0
    if kind == "determinism":
        t = _tuplify(detail["triple"])
        here = compute(t, want_key=False)[1]
        env = dict(os.environ)
        env["PYTHONHASHSEED"] = str(detail["hashseed"])
        code = ("import sys, json; from vlib.props import c32; t = c32._tuplify(json.loads(sys.argv[1])); "
                "print(c32.compute(t, reverse=(sys.argv[2] == 'reversed'), want_key=False)[1])")
        import json
        from ..runner import _jsonable
        p = subprocess.run([build.PY, "-c", code, json.dumps(_jsonable(t)), detail["order"]], env=env, cwd=build.VERIF,
                           stdout=subprocess.PIPE, stderr=subprocess.PIPE, text=True)
        there = p.stdout.strip()
        print("inputs:", t[1], repr(t[2]), materialize(t[3]))
        print("name here (PYTHONHASHSEED=%s): %s" % (os.environ.get("PYTHONHASHSEED"), here))
        print("name in a fresh process (PYTHONHASHSEED=%s, keyword order %s): %s" % (detail["hashseed"], detail["order"], there))
        return 1 if here != there else 0
    if kind in ("key-collision", "name-shared"):
        ts = [_tuplify(t) for t in detail["inputs"]]
        rs = [compute(t) for t in ts]
        for t, r in zip(ts, rs):
            print("cdefs=%r source=%r kwargs=%r\n   key=%r\n   name=%s" % (list(t[1]), t[2], materialize(t[3]), r[0], r[1]))
        if kind == "key-collision":
            same = rs[0][0] == rs[1][0] and triple_canon(ts[0]) != triple_canon(ts[1])
            print("different inputs, same hashed key:", same)
            return 1 if same else 0
        return 1 if rs[0][1] == rs[1][1] and rs[0][0] != rs[1][0] else 0
    if kind == "same-key":
        print(detail)
        return 1
    print(detail)
    return 1


def _tuplify(o):
    if isinstance(o, list):
        return tuple(_tuplify(x) for x in o)
    return o
