"""The declarator grammar G shared by C07 and C08, the declaration contexts, the
token-level near-miss operators, and the two FFIs (in-line / out-of-line) of
every context.

G is transcribed from the statement of C07.  A *derivation* is a sequence of
production applications; every production below carries a cost and the *depth*
of a derivation is the sum of the costs (so depth d contains every combination
of d elementary features).  `typenames(d)` returns EVERY derivation of depth
<= d (no sampling), as token tuples.

    TypeName -> Specs Decl
    Specs    -> one of the 13 canonical base types                              cost 0
              | any other ordering of any primitive specifier multiset          cost 1
              | Specs with one `const`/`volatile` token inserted before, after
                or between two specifiers                                       cost 1 each
    Decl     -> (empty)
              | Decl with the hole replaced by  `* hole`  (parenthesised when a
                postfix follows the hole, as C requires)                        cost 1
                  + one `const`/`volatile` after the `*`                        cost 1 each
                  + `__cdecl`/`__stdcall` inside `(__abi *` or outside
                    `__abi (*` when the pointer completes a function pointer    cost 1
              | ... `hole [n]`   n in {3, empty}                                cost 1
                                 n in {0, 010, 0x10, K, E1}                     cost 2
              | ... `( piece )`  grouping parentheses round the innermost piece cost 1
              | ... `hole ( Params )`, which must be completed by a pointer
                (function pointer); Params = void                               cost 0
                    each parameter TypeName                                     cost 1 + its depth
                    a trailing `...` after >= 1 parameter                       cost 1

Grammar(ext=True) (used by C07; C08 enumerates Grammar()) adds to Specs, at cost 1 each: every
ordering of float/double + _Complex, the typedefs of DECLS_XB (of an array, a function, a
function pointer, void, an anonymous enum, a pointer to an anonymous struct) and the names
that need no declaration (bool, int32_t, size_t, wchar_t, char16_t).  typenames(d, hole=True)
returns the same derivations with the hole kept, for the named-parameter family of C07.

The hole is the position where the next (outer-to-inner in the text, inner-to-outer
in the type) constructor is written: exactly the `ct_name_position` of cffi.
"""
import itertools
import os

ABIS = ("__cdecl", "__stdcall")
QUALS = ("const", "volatile")
PRIMSPEC = ("short", "long", "signed", "unsigned", "int", "char", "double", "float", "_Bool", "void", "_Complex")
KEYWORDS = set(PRIMSPEC) | set(QUALS) | set(ABIS) | {"struct", "union", "enum"}

# ---------------------------------------------------------------------------------------
# declaration contexts

DECLS_A = """
#define K 4
#define Z 0
typedef int td_i;
enum E { E0, E1, E2 };
struct S { int a; char b; };
"""
DECLS_B = """
typedef int *td_p;
union U { int i; double d; };
typedef struct St { short h; } td_s;
typedef struct { char c; long l; } td_a;
"""
DECLS = DECLS_A + DECLS_B

# The extended contexts (C07 only: `make_pair(..., ext=True)`; C08 keeps DECLS).  XA goes with
# DECLS_A (the included FFI of the 'include' context), XB with DECLS_B.
#   constants of every kind that can stand between [ ]: negative / > 2**32 / > SSIZE_MAX #defines,
#   an enumerator of an anonymous enum, a negative enumerator, an enumerator of a typedef'd
#   anonymous enum (X1), a constant without a value, and two globals that are not constants;
#   typedefs of an array, a function, a function pointer, void, an anonymous enum, a pointer to
#   an anonymous struct.
DECLS_XA = """
#define NEG -1
#define BIG 0x100000000
#define HUGE 0xFFFFFFFFFFFFFFFF
enum { AN = 6 };
enum EN { EM = -2, EP = 3 };
static const int SK;
int gfunc(int);
extern int gvar;
"""
DECLS_XB = """
typedef int td_arr[3];
typedef int td_fn(int);
typedef int (*td_fp)(int);
typedef void td_v;
typedef enum { X0, X1 = 7 } td_e;
typedef struct { int q; } *td_np;
"""
# what an API-mode module needs in addition to the declarations themselves
API_SOURCE_TAIL = """
int gfunc(int x) { return x; }
int gvar;
"""

# name -> namespace.  'tagged_typedef' marks the typedef whose direct target is a tagged struct
# (DESIGN section 6, #12).
NAMES = {
    "K": "const", "Z": "const", "E0": "const", "E1": "const", "E2": "const",
    "td_i": "typedef", "td_p": "typedef", "td_s": "typedef", "td_a": "typedef",
    # extended contexts
    "NEG": "const", "BIG": "const", "HUGE": "const", "AN": "const", "EM": "const", "EP": "const",
    "SK": "const", "X0": "const", "X1": "const", "gfunc": "global", "gvar": "global",
    "td_arr": "typedef", "td_fn": "typedef", "td_fp": "typedef", "td_v": "typedef", "td_e": "typedef",
    "td_np": "typedef",
}
TAGS = {"S": "struct", "St": "struct", "U": "union", "E": "enum", "EN": "enum"}
# the names that only the extended contexts declare
EXT_NAMES = frozenset(["NEG", "BIG", "HUGE", "AN", "EM", "EP", "SK", "X0", "X1", "gfunc", "gvar", "EN",
                       "td_arr", "td_fn", "td_fp", "td_v", "td_e", "td_np"])
# how a constant name was declared (features / cause classification of C07)
CONST_KIND = {"K": "define", "Z": "define", "NEG": "define", "BIG": "define", "HUGE": "define",
              "E0": "enumerator", "E1": "enumerator", "E2": "enumerator", "AN": "enumerator",
              "EM": "enumerator", "EP": "enumerator", "X0": "enumerator", "X1": "enumerator",
              "SK": "novalue", "gfunc": "global", "gvar": "global"}
# names that both parsers know without any declaration (cffi/commontypes.py, parse_c_type.c
# search_standard_typename / get_common_type): type specifiers in every context, also 'empty'
COMMON_TYPES = ("bool", "int32_t", "size_t", "wchar_t", "char16_t")

CONTEXTS = ("empty", "decls", "include")

BASES = [("int",), ("char",), ("unsigned", "long"), ("double",), ("void",), ("_Bool",),
         ("td_i",), ("td_p",), ("td_s",), ("td_a",), ("struct", "S"), ("union", "U"), ("enum", "E")]

_PRIM_MULTISETS = [
    ("char",), ("signed", "char"), ("unsigned", "char"),
    ("short",), ("short", "int"), ("signed", "short"), ("signed", "short", "int"),
    ("unsigned", "short"), ("unsigned", "short", "int"),
    ("int",), ("signed",), ("signed", "int"), ("unsigned",), ("unsigned", "int"),
    ("long",), ("long", "int"), ("signed", "long"), ("signed", "long", "int"),
    ("unsigned", "long"), ("unsigned", "long", "int"),
    ("long", "long"), ("long", "long", "int"), ("signed", "long", "long"),
    ("signed", "long", "long", "int"), ("unsigned", "long", "long"), ("unsigned", "long", "long", "int"),
    ("float",), ("double",), ("long", "double"), ("void",), ("_Bool",),
]
# extended grammar (Grammar(ext=True)): _Complex is a primitive specifier, so its multisets are
# re-ordered and qualified like the others; typedefs of every type constructor and the
# predeclared names are type specifiers like td_i.  All of them are cost-1 heads.
_PRIM_MULTISETS_X = [("float", "_Complex"), ("double", "_Complex")]
BASES_X = [("td_arr",), ("td_fn",), ("td_fp",), ("td_v",), ("td_e",), ("td_np",)] + [(n,) for n in COMMON_TYPES]


def spec_orderings(ext=False):
    """Every ordering of every primitive specifier multiset, each as a list of specifiers."""
    out = []
    seen = set()
    for ms in _PRIM_MULTISETS + (_PRIM_MULTISETS_X if ext else []):
        for p in sorted(set(itertools.permutations(ms))):
            if p not in seen:
                seen.add(p)
                out.append(p)
    return out


def _specs(budget, ext=False):
    """[(cost, tokens)] for every Specs derivation of cost <= budget."""
    heads = []         # (cost, [specifier, ...]) where a specifier is a tuple of tokens
    canon = set()
    for b in BASES:
        if b[0] in ("struct", "union", "enum"):
            heads.append((0, [b]))
        else:
            heads.append((0, [(t,) for t in b]))
            canon.add(b)
    if budget >= 1:
        for p in spec_orderings(ext):
            if p not in canon:
                heads.append((1, [(t,) for t in p]))
        if ext:
            for b in BASES_X:
                heads.append((1, [(t,) for t in b]))
    out = {}
    for c0, sp in heads:
        n = len(sp)
        maxq = budget - c0
        # insert up to maxq qualifier tokens at the n+1 positions
        for nq in range(0, maxq + 1):
            for qs in itertools.product(QUALS, repeat=nq):
                for pos in itertools.combinations_with_replacement(range(n + 1), nq):
                    toks = []
                    k = 0
                    for i in range(n + 1):
                        while k < nq and pos[k] == i:
                            toks.append(qs[k])
                            k += 1
                        if i < n:
                            toks.extend(sp[i])
                    t = tuple(toks)
                    c = c0 + nq
                    if t not in out or out[t] > c:
                        out[t] = c
    return sorted(((c, t) for t, c in out.items()), key=lambda x: (x[0], x[1]))


def _after_hole(d):
    i = d.index("&")
    return d[i + 1] if i + 1 < len(d) else None


def _subst(d, piece):
    i = d.index("&")
    return d[:i] + piece + d[i + 1:]


ARR_LEN = [(1, "3"), (1, None), (2, "0"), (2, "010"), (2, "0x10"), (2, "K"), (2, "E1"), (2, "Z"), (2, "E0")]
PTR_QUALS = [(), ("const",), ("volatile",), ("const", "volatile"), ("volatile", "const")]


class Grammar(object):
    """Grammar() is the grammar of the module docstring (what C08 enumerates).  Grammar(ext=True)
    adds, as Specs heads of cost 1: every ordering of float/double + _Complex, the typedefs of
    DECLS_XB (array, function, function pointer, void, anonymous enum, pointer to an anonymous
    struct) and the predeclared names COMMON_TYPES; it is a superset of Grammar()."""

    def __init__(self, ext=False):
        self.ext = ext
        self._tn = {}
        self._params = {}
        self._decls = {}

    def typenames(self, budget, hole=False):
        """Sorted list of (cost, tokens) of every TypeName derivation of cost <= budget.
        hole=True: the tokens keep the hole '&' (the place of the declared name), and only
        derivations in which a name may stand there are returned (see decls)."""
        key = (budget, hole)
        if key in self._tn:
            return self._tn[key]
        out = {}
        specs = _specs(budget, self.ext)
        for cs, st in specs:
            for cd, dt in self.decls(budget - cs, hole):
                t = st + dt
                c = cs + cd
                if t not in out or out[t] > c:
                    out[t] = c
        res = sorted(((c, t) for t, c in out.items()), key=lambda x: (x[0], len(x[1]), x[1]))
        self._tn[key] = res
        return res

    def params(self, budget):
        """[(cost, tokens)] of parameter lists (without the parentheses)."""
        if budget in self._params:
            return self._params[budget]
        out = [(0, ("void",))]
        # one parameter
        ones = [(1 + c, t) for c, t in self.typenames(budget - 1)] if budget >= 1 else []
        out.extend(ones)
        # two parameters
        for c1, t1 in ones:
            for c2, t2 in ones:
                if c1 + c2 <= budget:
                    out.append((c1 + c2, t1 + (",",) + t2))
        # variadic
        for c1, t1 in ones:
            if c1 + 1 <= budget:
                out.append((c1 + 1, t1 + (",", "...")))
        for c1, t1 in ones:
            for c2, t2 in ones:
                if c1 + c2 + 1 <= budget:
                    out.append((c1 + c2 + 1, t1 + (",",) + t2 + (",", "...")))
        self._params[budget] = out
        return out

    def decls(self, budget, hole=False):
        """[(cost, tokens)] of every abstract declarator of cost <= budget (hole removed;
        hole=True: hole kept as '&')."""
        key = (budget, hole)
        if key in self._decls:
            return self._decls[key]
        out = {}

        def emit(d, cost):
            t = d if hole else tuple(x for x in d if x != "&")
            if t not in out or out[t] > cost:
                out[t] = cost

        # state: (tokens with '&', cost, pieces stack as (start, end) is not needed: we keep
        # the innermost piece's span to implement grouping)
        def rec(d, span, cost, pending_fn):
            # span = (i, j): the innermost piece occupies d[i:j] (contains the hole); None if empty
            if not pending_fn:
                emit(d, cost)
            left = budget - cost
            if left <= 0:
                return
            h = d.index("&")
            nxt = d[h + 1] if h + 1 < len(d) else None
            post = nxt in ("[", "(")
            # pointer (+ qualifiers, + abi when completing a function pointer)
            for q in PTR_QUALS:
                c = 1 + len(q)
                if c > left:
                    continue
                abis = [(0, None, None)]
                if pending_fn and nxt == "(":
                    for a in ABIS:
                        abis.append((1, a, "in"))
                        abis.append((1, a, "out"))
                for ca, a, where in abis:
                    if c + ca > left:
                        continue
                    core = ("*",) + q + ("&",)
                    if post:
                        if where == "in":
                            piece = ("(", a) + core + (")",)
                        elif where == "out":
                            piece = (a, "(") + core + (")",)
                        else:
                            piece = ("(",) + core + (")",)
                    else:
                        piece = core
                    nd = d[:h] + piece + d[h + 1:]
                    rec(nd, (h, h + len(piece)), cost + c + ca, False)
            if not pending_fn:
                # array
                for c, n in ARR_LEN:
                    if c > left:
                        continue
                    piece = ("&", "[") + ((n,) if n is not None else ()) + ("]",)
                    nd = d[:h] + piece + d[h + 1:]
                    rec(nd, (h, h + len(piece)), cost + c, False)
                # function (to be completed by a pointer: needs >= 1 more)
                for c, p in self.params(left - 1):
                    piece = ("&", "(") + p + (")",)
                    nd = d[:h] + piece + d[h + 1:]
                    rec(nd, (h, h + len(piece)), cost + c, True)
            # grouping parentheses round the innermost piece
            if span is not None and left >= 1:
                i, j = span
                nd = d[:i] + ("(",) + d[i:j] + (")",) + d[j:]
                rec(nd, (i, j + 2), cost + 1, pending_fn)

        rec(("&",), None, 0, False)
        res = sorted(((c, t) for t, c in out.items()), key=lambda x: (x[0], len(x[1]), x[1]))
        self._decls[key] = res
        return res


# ---------------------------------------------------------------------------------------
# spelling and near misses

def _wordy(t):
    return t[0].isalnum() or t[0] == "_"


def spaced(tokens):
    return " ".join(tokens)


def dense(tokens):
    out = []
    prev = None
    for t in tokens:
        if prev is not None and _wordy(prev) and _wordy(t):
            out.append(" ")
        out.append(t)
        prev = t
    return "".join(out)


def tokenize(s):
    """Inverse of spaced()/dense() for strings over G's token alphabet."""
    out = []
    i = 0
    n = len(s)
    while i < n:
        ch = s[i]
        if ch.isspace():
            i += 1
        elif ch.isalnum() or ch == "_":
            j = i
            while j < n and (s[j].isalnum() or s[j] == "_"):
                j += 1
            out.append(s[i:j])
            i = j
        elif s.startswith("...", i):
            out.append("...")
            i += 3
        else:
            out.append(ch)
            i += 1
    return tuple(out)


def near_misses(tokens):
    """All single-token deletions, duplications and adjacent swaps."""
    n = len(tokens)
    for i in range(n):
        yield tokens[:i] + tokens[i + 1:]
        yield tokens[:i + 1] + tokens[i:]
    for i in range(n - 1):
        if tokens[i] != tokens[i + 1]:
            yield tokens[:i] + (tokens[i + 1], tokens[i]) + tokens[i + 2:]


# ---------------------------------------------------------------------------------------
# token-level structure

TYPEDEFS = tuple(sorted(k for k, v in NAMES.items() if v == "typedef"))
GROUP_OPENERS = ("*", "(", "[") + ABIS


def match_paren(tokens, i):
    """Index of the ')' matching the '(' at i, or None."""
    d = 0
    for j in range(i, len(tokens)):
        if tokens[j] == "(":
            d += 1
        elif tokens[j] == ")":
            d -= 1
            if d == 0:
                return j
    return None


def spec_lists(tokens):
    """The declaration-specifier lists of a string: one starts at the beginning, after every ','
    and after every '(' that does not open a grouping ('(' + one of * ( [ __abi).
    -> [(start, end, quals_idx, spec_idx)] (spec_idx: indexes of type-specifier tokens)."""
    n = len(tokens)
    starts = [0]
    for i, t in enumerate(tokens):
        if t == "," or (t == "(" and (i + 1 >= n or tokens[i + 1] not in GROUP_OPENERS)):
            starts.append(i + 1)
    out = []
    for s in starts:
        j = s
        quals, specs = [], []
        while j < n:
            t = tokens[j]
            if t in QUALS:
                quals.append(j)
            elif t in PRIMSPEC:
                specs.append(j)
            elif t in ("struct", "union", "enum"):
                specs.append(j)
                if j + 1 < n and tokens[j + 1] in TAGS:
                    j += 1
            elif (t in TYPEDEFS or t in COMMON_TYPES) and not specs:
                specs.append(j)
            else:
                break
            j += 1
        out.append((s, j, quals, specs))
    return out


# ---------------------------------------------------------------------------------------
# scope: which strings are over *declared* names in a context

def in_scope(tokens, context):
    """The statement quantifies over type strings (abstract declarators) whose typedef / struct /
    union / enum / constant names are declared.  Returns None when in scope, else the reason for
    exclusion:
      undeclared_name / undeclared_tag -- a name that the context does not declare (for the tag
        position: not declared with that keyword);
      declarator_name -- an identifier that is neither a tag after struct/union/enum, nor inside
        [ ], nor a typedef name in type-specifier position: it would be read as the name of the
        declared object or parameter (`int (x)`), which type strings do not have;
      constant_without_value -- ('api' context) a constant whose value the cdef does not give.
    The names COMMON_TYPES are declared in every context."""
    prev = None
    spec_pos = None
    in_brackets = False
    for i, t in enumerate(tokens):
        if t == "[":
            in_brackets = True
        elif t == "]":
            in_brackets = False
        elif _wordy(t) and not t[0].isdigit() and t not in KEYWORDS:
            common = t in COMMON_TYPES and prev not in ("struct", "union", "enum")
            if context == "empty" and not common:
                return "undeclared_name"
            if prev in ("struct", "union", "enum"):
                if TAGS.get(t) != prev:
                    return "undeclared_tag"
            elif not common and t not in NAMES and t not in TAGS:
                return "undeclared_name"
            elif not in_brackets:
                if spec_pos is None:
                    spec_pos = set()
                    for s, e, quals, specs in spec_lists(tokens):
                        spec_pos.update(specs)
                if i not in spec_pos:
                    return "declarator_name"
            elif context == "api" and CONST_KIND.get(t) == "novalue":
                # `static const int SK;`: only the compiled C code knows the value, the in-line FFI
                # has none to compare with
                return "constant_without_value"
        prev = t
    return None


# ---------------------------------------------------------------------------------------
# the FFIs

class Pair(object):
    """The in-line FFI and the FFI of an imported out-of-line ABI module for one context."""
    def __init__(self, context, inline, compiled):
        self.context = context
        self.inline = inline
        self.compiled = compiled


_modcount = itertools.count()


def _emit_and_import(ffi, name, directory):
    import importlib.util
    import sys
    path = os.path.join(directory, name + ".py")
    ffi.set_source(name, None)
    # emit_python_code prints "generating ..." on stdout: keep the check's stdout clean
    import contextlib
    import io
    with contextlib.redirect_stdout(io.StringIO()):
        ffi.emit_python_code(path)
    spec = importlib.util.spec_from_file_location(name, path)
    mod = importlib.util.module_from_spec(spec)
    sys.modules[name] = mod           # the including module does `from <base> import ffi`
    spec.loader.exec_module(mod)
    return mod


def compile_api_module(directory, name=None):
    """Compile the API-mode extension module of the extended declarations.  -> (name, path)"""
    import cffi
    import contextlib
    import glob
    import io
    if name is None:
        name = "_c07_api_%d_%d" % (os.getpid(), next(_modcount))
    decls = DECLS_A + DECLS_XA + DECLS_B + DECLS_XB
    g = cffi.FFI()
    g.cdef(decls)
    g.set_source(name, decls + API_SOURCE_TAIL)
    tmp = os.path.join(directory, name + "_build")
    err = io.StringIO()
    try:
        with contextlib.redirect_stdout(io.StringIO()), contextlib.redirect_stderr(err):
            g.compile(tmpdir=tmp, verbose=False)
    except Exception as e:
        raise RuntimeError("cannot compile the API-mode module: %s\n%s" % (e, err.getvalue()))
    found = glob.glob(os.path.join(tmp, name + "*.so"))
    if len(found) != 1:
        raise RuntimeError("API-mode module not found in %s" % tmp)
    return name, found[0]


def _import_ext(name, path):
    import importlib.util
    import sys
    if name in sys.modules:
        return sys.modules[name]
    spec = importlib.util.spec_from_file_location(name, path)
    mod = importlib.util.module_from_spec(spec)
    spec.loader.exec_module(mod)
    sys.modules[name] = mod
    return mod


def make_pair(context, directory, ext=False, api=None):
    """Build both FFIs of a context from the same declarations.  ext=True: the declarations
    include DECLS_XA / DECLS_XB.  Context 'api' (ext only): the compiled side is the ffi of the
    API-mode extension module `api` = (name, path) made by compile_api_module()."""
    import cffi
    import _cffi_backend
    tag = "%d_%d" % (os.getpid(), next(_modcount))
    decls_a = DECLS_A + (DECLS_XA if ext else "")
    decls_b = DECLS_B + (DECLS_XB if ext else "")
    if context == "empty":
        return Pair(context, cffi.FFI(), _cffi_backend.FFI())
    if context == "decls":
        f = cffi.FFI()
        f.cdef(decls_a + decls_b)
        g = cffi.FFI()
        g.cdef(decls_a + decls_b)
        mod = _emit_and_import(g, "_c07_decls_" + tag, directory)
        return Pair(context, f, mod.ffi)
    if context == "include":
        f0 = cffi.FFI()
        f0.cdef(decls_a)
        f = cffi.FFI()
        f.include(f0)
        f.cdef(decls_b)
        g0 = cffi.FFI()
        g0.cdef(decls_a)
        _emit_and_import(g0, "_c07_base_" + tag, directory)
        g = cffi.FFI()
        g.include(g0)
        g.cdef(decls_b)
        mod = _emit_and_import(g, "_c07_incl_" + tag, directory)
        p = Pair(context, f, mod.ffi)
        p.keep = (f0, g0)
        return p
    if context == "api":
        if not ext or api is None:
            raise ValueError("context 'api' needs ext=True and a compiled module")
        f = cffi.FFI()
        f.cdef(decls_a + decls_b)
        mod = _import_ext(*api)
        return Pair(context, f, mod.ffi)
    raise ValueError(context)


# ---------------------------------------------------------------------------------------
# type equivalence (the oracle of C07)

def has_named_leaf(ct, _depth=0):
    k = ct.kind
    if k in ("struct", "union", "enum"):
        return True
    if k in ("pointer", "array"):
        return has_named_leaf(ct.item)
    if k == "function":
        return has_named_leaf(ct.result) or any(has_named_leaf(a) for a in ct.args)
    return False


def equiv(a, b):
    """Identical object when no struct/union/enum occurs in the type; otherwise the same
    shape recursively, struct/union/enum leaves of the same kind and name."""
    if a is b:
        return True
    if not has_named_leaf(a) and not has_named_leaf(b):
        return False
    if a.kind != b.kind:
        return False
    k = a.kind
    if k in ("struct", "union", "enum"):
        return a.cname == b.cname
    if k == "pointer":
        return equiv(a.item, b.item)
    if k == "array":
        return a.length == b.length and equiv(a.item, b.item)
    if k == "function":
        return (a.ellipsis == b.ellipsis and a.abi == b.abi and len(a.args) == len(b.args)
                and equiv(a.result, b.result) and all(equiv(x, y) for x, y in zip(a.args, b.args)))
    return False


def describe(ct):
    """Structural description of a ctype (for evidence / replay output)."""
    k = ct.kind
    if k in ("pointer",):
        return ["pointer", describe(ct.item)]
    if k == "array":
        return ["array", ct.length, describe(ct.item)]
    if k == "function":
        return ["function", [describe(a) for a in ct.args], describe(ct.result), bool(ct.ellipsis), ct.abi]
    return [k, ct.cname]
