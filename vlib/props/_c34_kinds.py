"""C34 helper: the declaration alphabet (texts of every declaration kind, its usages, the gcc layout
sources and the API-mode reach operations).

OLD_KINDS     the original 9 kinds (one shape each)
SHAPE_KINDS   further shapes of "typedef, struct, union, enum and integer constant" (audit gaps 2 and 7)
REACH_KINDS   API mode only: further shapes of "functions, globals and constants" of the included module that
              must be reachable through the including lib (audit gap 3)
"""

OLD_KINDS = ["tprim", "tstruct", "struct", "union", "enum", "anon", "const", "func", "glob"]
SHAPE_KINDS = ["opaque", "aunion", "aenum", "enum_neg", "enum_big", "enum_unnamed", "tptr", "tarr", "tfn", "ttd",
               "tsptr", "nested", "const_big", "packed", "flex", "opaque_dots", "punion", "panon"]
REACH_KINDS = ["func0", "func2", "funcv", "funcs", "garr", "gstruct", "gfnptr", "gconst", "kdouble", "kstr",
               "kstruct", "extpy"]
ALL_KINDS = OLD_KINDS + SHAPE_KINDS + REACH_KINDS

# kinds whose declaration only exists in API mode ('...' in the cdef, or things only a compiled lib has)
API_ONLY = set(["opaque_dots", "punion", "panon"] + REACH_KINDS)
# kinds that declare types usable by the including cdef (field / pointer argument / typedef target)
TYPE_KINDS = set(["tprim", "tstruct", "struct", "union", "enum", "anon",
                  "opaque", "aunion", "aenum", "enum_neg", "enum_big", "tptr", "tarr", "tfn", "ttd", "tsptr", "nested",
                  "packed", "flex", "opaque_dots", "punion", "panon"])
# incomplete or variable-sized types cannot be a (non-last) field by value
NO_FIELD = set(["opaque", "opaque_dots", "flex"])
# kinds with an integer constant that the including cdef can use as an array length
LEN_CONST = {"const": ("K_CONST", 42), "enum_unnamed": ("UN_A", 11)}
# every enum shape that is re-created in generated modules is the same recorded defect (K34-enum-copied: kind "enum")
SIG_KIND = {"aenum": "enum", "enum_neg": "enum", "enum_big": "enum"}


def applicable(kind, usage, api=True):
    if kind in API_ONLY and not api:
        return False
    if kind in REACH_KINDS:
        return usage == "nameonly"
    if kind in TYPE_KINDS:
        return not (usage == "field" and kind in NO_FIELD)
    if kind in LEN_CONST:
        return usage != "ptrarg"
    return usage == "nameonly"


def decl(kind, s, api):
    """Declaration of `kind` with name suffix s.  Returns a dict:
    cdef (text for the declaring FFI), packed (text that FFI must cdef with packed=True), ctypes (C type
    definitions every module of the chain needs), cdefs (C definitions for the declaring module only), types (probe
    names), main (the type used by the usages), consts, layout (key of LAYOUT_SRC) of layout_type (default main),
    components [(type, 'item' | field name, expected type)], opaque (types without size)."""
    d = dict(cdef="", packed="", ctypes="", cdefs="", types=[], main=None, consts={}, layout=None, layout_type=None,
             components=[], opaque=[])
    S = {"s": s}
    # ---------------------------------------------------------------- the original alphabet (unchanged)
    if kind == "tprim":
        d["cdef"] = d["ctypes"] = "typedef int tp_t%s;\n" % s
        d["types"] = ["tp_t" + s]
    elif kind == "tstruct":
        if api:
            # the cdef is partial: the layout can only come from the compiled included module
            d["cdef"] = "typedef struct ts_s%s { int a; char b; ...; } ts_t%s;\n" % (s, s)
            d["ctypes"] = "typedef struct ts_s%s { char pad[12]; int a; char b; } ts_t%s;\n" % (s, s)
            d["layout"] = "tstruct_api"
        else:
            d["cdef"] = d["ctypes"] = "typedef struct ts_s%s { int a; char b; } ts_t%s;\n" % (s, s)
            d["layout"] = "tstruct"
        d["types"] = ["ts_t" + s, "struct ts_s" + s]
    elif kind == "struct":
        d["cdef"] = d["ctypes"] = "struct st_s%s { short a; int b:3; long c; };\n" % s
        d["types"] = ["struct st_s" + s]
        d["layout"] = "struct"
    elif kind == "union":
        d["cdef"] = d["ctypes"] = "union un_u%s { int a; char b[6]; };\n" % s
        d["types"] = ["union un_u" + s]
        d["layout"] = "union"
    elif kind == "enum":
        d["cdef"] = d["ctypes"] = "enum en_e%s { EN_A%s, EN_B%s = 5 };\n" % (s, s, s)
        d["types"] = ["enum en_e" + s]
        d["consts"] = {"EN_A" + s: 0, "EN_B" + s: 5}
    elif kind == "anon":
        d["cdef"] = d["ctypes"] = "typedef struct { long a; char b; } an_t%s;\n" % s
        d["types"] = ["an_t" + s]
        d["layout"] = "anon"
    elif kind == "const":
        d["cdef"] = "#define K_CONST%s 42\nstatic const int K_NEG%s = -7;\n" % (s, s)
        d["cdefs"] = "#define K_CONST%s 42\nstatic const int K_NEG%s = -7;\n" % (s, s)
        d["consts"] = {"K_CONST" + s: 42, "K_NEG" + s: -7}
    elif kind == "func":
        d["cdef"] = "int fn_f%s(int);\n" % s
        d["cdefs"] = "int fn_f%s(int x) { return x + 1000; }\n" % s
    elif kind == "glob":
        d["cdef"] = "extern int gl_g%s;\n" % s
        d["cdefs"] = "int gl_g%s = 77;\n" % s
    # ---------------------------------------------------------------- further shapes of types and constants
    elif kind == "opaque":
        d["cdef"] = d["ctypes"] = ("struct op_s%(s)s;\ntypedef struct op_s%(s)s op_t%(s)s;\n"
                                   "typedef struct oq_s%(s)s *oqp_t%(s)s;\n" % S)
        d["types"] = ["op_t" + s, "struct op_s" + s, "oqp_t" + s, "struct oq_s" + s]
        d["opaque"] = ["op_t" + s, "struct op_s" + s, "struct oq_s" + s]
        d["components"] = [("oqp_t" + s, "item", "struct oq_s" + s)]
    elif kind == "opaque_dots":
        d["cdef"] = "typedef ... od_t%s;\n" % s
        d["ctypes"] = "typedef struct { int hid; } od_t%s;\n" % s
        d["types"] = ["od_t" + s]
        d["opaque"] = ["od_t" + s]
    elif kind == "aunion":
        d["cdef"] = d["ctypes"] = "typedef union { int a; char b[6]; } au_t%s;\n" % s
        d["types"] = ["au_t" + s]
        d["layout"] = "aunion"
    elif kind == "aenum":
        d["cdef"] = d["ctypes"] = "typedef enum { AE_A%(s)s, AE_B%(s)s = 9 } ae_t%(s)s;\n" % S
        d["types"] = ["ae_t" + s]
        d["consts"] = {"AE_A" + s: 0, "AE_B" + s: 9}
    elif kind == "enum_neg":
        d["cdef"] = d["ctypes"] = "enum ng_e%(s)s { NG_A%(s)s = -3, NG_B%(s)s = 2 };\n" % S
        d["types"] = ["enum ng_e" + s]
        d["consts"] = {"NG_A" + s: -3, "NG_B" + s: 2}
    elif kind == "enum_big":
        d["cdef"] = d["ctypes"] = "enum bg_e%(s)s { BG_A%(s)s = 1, BG_B%(s)s = 0x100000000 };\n" % S
        d["types"] = ["enum bg_e" + s]
        d["consts"] = {"BG_A" + s: 1, "BG_B" + s: 1 << 32}
    elif kind == "enum_unnamed":
        # Parser.include() skips the declaration of an unnamed enum; its enumerators must arrive as constants
        d["cdef"] = d["ctypes"] = "enum { UN_A%(s)s = 11, UN_B%(s)s };\n" % S
        d["consts"] = {"UN_A" + s: 11, "UN_B" + s: 12}
    elif kind == "tptr":
        d["cdef"] = d["ctypes"] = "typedef int *ip_t%s;\n" % s
        d["types"] = ["ip_t" + s]
    elif kind == "tarr":
        d["cdef"] = d["ctypes"] = "typedef int ar_t%s[4];\n" % s
        d["types"] = ["ar_t" + s]
    elif kind == "tfn":
        d["cdef"] = d["ctypes"] = "typedef int (*fp_t%s)(int);\n" % s
        d["types"] = ["fp_t" + s]
    elif kind == "ttd":
        d["cdef"] = d["ctypes"] = ("typedef long bs_t%(s)s;\ntypedef bs_t%(s)s *bsp_t%(s)s;\n"
                                   "typedef bsp_t%(s)s bq_t%(s)s;\n" % S)
        d["types"] = ["bq_t" + s, "bsp_t" + s, "bs_t" + s]
        d["components"] = [("bq_t" + s, "item", "bs_t" + s)]
    elif kind == "tsptr":
        d["cdef"] = d["ctypes"] = "typedef struct sp_s%(s)s { int q; } *sp_t%(s)s;\n" % S
        d["types"] = ["sp_t" + s, "struct sp_s" + s]
        d["components"] = [("sp_t" + s, "item", "struct sp_s" + s)]
        d["layout"] = "sp"
        d["layout_type"] = "struct sp_s" + s
    elif kind == "nested":
        d["cdef"] = d["ctypes"] = (
            "struct in_s%(s)s { short p; long q; };\n"
            "struct out_s%(s)s { struct in_s%(s)s one; struct in_s%(s)s arr[2]; struct out_s%(s)s *self; "
            "union { int ua; char ub[3]; }; char tail; };\n"
            "typedef struct { struct in_s%(s)s x; } wr_t%(s)s;\n" % S)
        d["types"] = ["struct out_s" + s, "struct in_s" + s, "wr_t" + s]
        d["components"] = [("struct out_s" + s, "one", "struct in_s" + s),
                           ("struct out_s" + s, "arr", "struct in_s%s[2]" % s),
                           ("struct out_s" + s, "self", "struct out_s%s *" % s),
                           ("wr_t" + s, "x", "struct in_s" + s)]
        d["layout"] = "nested"
    elif kind == "const_big":
        d["cdef"] = ("#define KB_U64%(s)s 0xFFFFFFFFFFFFFFFF\n#define KB_M1%(s)s -1\n"
                     "#define KB_MIN%(s)s -9223372036854775808\n"
                     "static const long long KB_LL%(s)s = -5000000000;\n" % S)
        d["cdefs"] = ("#define KB_U64%(s)s 0xFFFFFFFFFFFFFFFFULL\n#define KB_M1%(s)s -1\n"
                      "#define KB_MIN%(s)s (-9223372036854775807LL-1)\n"
                      "static const long long KB_LL%(s)s = -5000000000LL;\n" % S)
        d["consts"] = {"KB_U64" + s: (1 << 64) - 1, "KB_M1" + s: -1, "KB_MIN" + s: -(1 << 63), "KB_LL" + s: -5000000000}
        if api:
            d["cdef"] += "#define KB_DOTS%s ...\n" % s
            d["cdefs"] += "#define KB_DOTS%s 123456789012LL\n" % s
            d["consts"]["KB_DOTS" + s] = 123456789012
    elif kind == "packed":
        d["packed"] = "struct pk_s%s { char a; int b; short c; };\n" % s
        d["ctypes"] = "struct __attribute__((packed)) pk_s%s { char a; int b; short c; };\n" % s
        d["types"] = ["struct pk_s" + s]
        d["layout"] = "packed"
    elif kind == "flex":
        d["cdef"] = d["ctypes"] = "struct fx_s%s { int n; short tail[]; };\n" % s
        d["types"] = ["struct fx_s" + s]
        d["layout"] = "flex"
    elif kind == "punion":
        d["cdef"] = "union pu_u%s { int a; char b[6]; ...; };\n" % s
        d["ctypes"] = "union pu_u%s { int a; char b[6]; double pad[3]; };\n" % s
        d["types"] = ["union pu_u" + s]
        d["layout"] = "punion"
    elif kind == "panon":
        d["cdef"] = "typedef struct { long a; char b; ...; } pn_t%s;\n" % s
        d["ctypes"] = "typedef struct { char pad[24]; long a; char b; } pn_t%s;\n" % s
        d["types"] = ["pn_t" + s]
        d["layout"] = "panon"
    # ---------------------------------------------------------------- API mode: functions, globals, constants
    elif kind == "func0":
        d["cdef"] = "int f0%s(void);\n" % s
        d["cdefs"] = "int f0%s(void) { return 314; }\n" % s
    elif kind == "func2":
        d["cdef"] = "long f2%s(int, long);\n" % s
        d["cdefs"] = "long f2%s(int a, long b) { return a * 1000L + b; }\n" % s
    elif kind == "funcv":
        d["cdef"] = "int fv%s(int, ...);\n" % s
        d["cdefs"] = ("#include <stdarg.h>\nint fv%s(int n, ...) { va_list ap; int t = 0; va_start(ap, n); "
                      "while (n-- > 0) t += va_arg(ap, int); va_end(ap); return t; }\n" % s)
    elif kind == "funcs":
        d["ctypes"] = "struct fs_s%s { int a; long b; };\n" % s
        d["cdef"] = d["ctypes"] + "struct fs_s%(s)s fs_f%(s)s(struct fs_s%(s)s);\n" % S
        d["cdefs"] = "struct fs_s%(s)s fs_f%(s)s(struct fs_s%(s)s x) { x.a += 1; x.b += 1; return x; }\n" % S
        d["types"] = ["struct fs_s" + s]
    elif kind == "garr":
        d["cdef"] = "extern int ga%s[3];\n" % s
        d["cdefs"] = "int ga%s[3] = {7, 8, 9};\n" % s
    elif kind == "gstruct":
        d["ctypes"] = "struct gs_s%s { int a; short b; };\n" % s
        d["cdef"] = d["ctypes"] + "extern struct gs_s%(s)s gs%(s)s;\n" % S
        d["cdefs"] = "struct gs_s%(s)s gs%(s)s = {5, 6};\n" % S
        d["types"] = ["struct gs_s" + s]
    elif kind == "gfnptr":
        d["cdef"] = "extern int (*gfp%s)(int);\n" % s
        d["cdefs"] = ("static int gfp_impl%(s)s(int x) { return x * 2; }\n"
                      "int (*gfp%(s)s)(int) = gfp_impl%(s)s;\n" % S)
    elif kind == "gconst":
        d["cdef"] = "extern const int gk%s;\n" % s
        d["cdefs"] = "const int gk%s = 55;\n" % s
    elif kind == "kdouble":
        d["cdef"] = "static const double KD%s;\n" % s
        d["cdefs"] = "static const double KD%s = 2.5;\n" % s
    elif kind == "kstr":
        d["cdef"] = "static char *const KS%s;\n" % s
        d["cdefs"] = "static char *const KS%s = \"hello\";\n" % s
    elif kind == "kstruct":
        d["ctypes"] = "struct ks_s%s { int a; int b; };\n" % s
        d["cdef"] = d["ctypes"] + "static const struct ks_s%(s)s KST%(s)s;\n" % S
        d["cdefs"] = "static const struct ks_s%(s)s KST%(s)s = {3, 4};\n" % S
        d["types"] = ["struct ks_s" + s]
    elif kind == "extpy":
        d["cdef"] = 'extern "Python" int ep%(s)s(int);\nint ep_call%(s)s(int);\n' % S
        d["cdefs"] = "static int ep%(s)s(int);\nint ep_call%(s)s(int x) { return ep%(s)s(x) + 1; }\n" % S
    else:
        raise ValueError(kind)
    d["main"] = d["types"][0] if d["types"] else None
    return d


def usage(kind, u, s, main):
    """Text in the including cdef (+ C definitions it needs in API mode)."""
    t = kind + s
    if u == "nameonly":
        return "", ""
    if kind in LEN_CONST:
        k = LEN_CONST[kind][0] + s
        if u == "field":
            return "struct use_s_%s { char f[%s]; int z; };\n" % (t, k), ""
        return "typedef char use_t_%s[%s];\n" % (t, k), ""
    if u == "field":
        return "struct use_s_%s { %s f; int z; };\n" % (t, main), ""
    if u == "ptrarg":
        return "void use_f_%s(%s *);\n" % (t, main), "void use_f_%s(%s *p) { (void)p; }\n" % (t, main)
    return "typedef %s use_t_%s;\n" % (main, t), ""


def c_usage_types(kind, u, s, main):
    """C type definitions for the usage (needed by the using module and every module that includes it)."""
    t = kind + s
    if u == "field":
        if kind in LEN_CONST:
            return "struct use_s_%s { char f[%d]; int z; };\n" % (t, LEN_CONST[kind][1])
        return "struct use_s_%s { %s f; int z; };\n" % (t, main)
    if u == "tdtarget":
        if kind in LEN_CONST:
            return "typedef char use_t_%s[%d];\n" % (t, LEN_CONST[kind][1])
        return "typedef %s use_t_%s;\n" % (main, t)
    return ""


# late declarations: cdef()ed into the included FFI AFTER it was included (how == "late_cdef")
def late_decl(s):
    cdef = "struct lt_s%(s)s { int a; char b; };\ntypedef struct lt_s%(s)s lt_t%(s)s;\n#define LT_K%(s)s 5\n" % {"s": s}
    ctypes = "struct lt_s%(s)s { int a; char b; };\ntypedef struct lt_s%(s)s lt_t%(s)s;\n" % {"s": s}
    cdefs = "#define LT_K%s 5\n" % s
    return cdef, ctypes, cdefs


# key: (C text defining the type under a private name, C type name, fields whose offsets are compared)
LAYOUT_SRC = {
    "tstruct": ("struct L_ts { int a; char b; };", "struct L_ts", ["a", "b"]),
    "tstruct_api": ("struct L_tsa { char pad[12]; int a; char b; };", "struct L_tsa", ["a", "b"]),
    "struct": ("struct L_st { short a; int b:3; long c; };", "struct L_st", ["a", "c"]),
    "union": ("union L_un { int a; char b[6]; };", "union L_un", ["a", "b"]),
    "anon": ("struct L_an { long a; char b; };", "struct L_an", ["a", "b"]),
    "aunion": ("union L_au { int a; char b[6]; };", "union L_au", ["a", "b"]),
    "sp": ("struct L_sp { int q; };", "struct L_sp", ["q"]),
    "nested": ("struct L_in { short p; long q; };\n"
               "struct L_out { struct L_in one; struct L_in arr[2]; struct L_out *self; "
               "union { int ua; char ub[3]; }; char tail; };", "struct L_out", ["one", "arr", "self", "ua", "ub", "tail"]),
    "packed": ("struct __attribute__((packed)) L_pk { char a; int b; short c; };", "struct L_pk", ["a", "b", "c"]),
    "flex": ("struct L_fx { int n; short tail[]; };", "struct L_fx", ["n", "tail"]),
    "punion": ("union L_pu { int a; char b[6]; double pad[3]; };", "union L_pu", ["a", "b"]),
    "panon": ("struct L_pn { char pad[24]; long a; char b; };", "struct L_pn", ["a", "b"]),
}


def layout_program():
    src = ["#include <stdio.h>\n#include <stddef.h>\n"]
    body = []
    for k, (text, T, flds) in sorted(LAYOUT_SRC.items()):
        src.append(text + "\n")
        body.append('printf("%s %%zu %%zu", sizeof(%s), _Alignof(%s));' % (k, T, T))
        for f in flds:
            body.append('printf(" %s=%%zu", offsetof(%s, %s));' % (f, T, f))
        body.append('printf("\\n");')
    src.append("int main(void){\n" + "\n".join(body) + "\nreturn 0;}\n")
    return "".join(src)


# ---------------------------------------------------------------------------------------------------------------
# API reach operations.  Every entry: sym (name for ffi.addressof(lib, sym), or None), read(F, L, F1) -> value
# compared with expect, optionally typed(F, L) -> (ctype, name of the type in the declaring FFI), optionally
# raw(F, L) -> int and store(F, L, int) for the shared-storage check, optionally ptr(F, L) -> int that must be the
# same through every lib.

def _addr(F, x):
    return int(F.cast("intptr_t", x))


def reach_ops(kind, s):
    if kind == "func0":
        return dict(sym="f0" + s, read=lambda F, L, F1: getattr(L, "f0" + s)(), expect=314)
    if kind == "func2":
        return dict(sym="f2" + s, read=lambda F, L, F1: getattr(L, "f2" + s)(3, 4), expect=3004)
    if kind == "funcv":
        return dict(sym="fv" + s, expect=11,
                    read=lambda F, L, F1: getattr(L, "fv" + s)(2, F.cast("int", 5), F.cast("int", 6)))
    if kind == "funcs":
        T = "struct fs_s" + s

        def read(F, L, F1):
            r = getattr(L, "fs_f" + s)(F.new(T + " *", [1, 2])[0])
            # a struct allocated through the DECLARING FFI must be accepted by the including lib's function
            r1 = getattr(L, "fs_f" + s)(F1.new(T + " *", [10, 20])[0])
            return (r.a, r.b, r1.a, r1.b)

        def typed(F, L):
            return F.typeof(getattr(L, "fs_f" + s)(F.new(T + " *")[0])), T
        return dict(sym="fs_f" + s, read=read, expect=(2, 3, 11, 21), typed=typed)
    if kind == "garr":
        def store(F, L, v):
            getattr(L, "ga" + s)[2] = v
        return dict(sym="ga" + s, read=lambda F, L, F1: list(getattr(L, "ga" + s)), expect=[7, 8, 9],
                    raw=lambda F, L: getattr(L, "ga" + s)[2], store=store)
    if kind == "gstruct":
        def store(F, L, v):
            getattr(L, "gs" + s).a = v
        return dict(sym="gs" + s, read=lambda F, L, F1: (getattr(L, "gs" + s).a, getattr(L, "gs" + s).b), expect=(5, 6),
                    raw=lambda F, L: getattr(L, "gs" + s).a, store=store,
                    typed=lambda F, L: (F.typeof(getattr(L, "gs" + s)), "struct gs_s" + s))
    if kind == "gfnptr":
        def store(F, L, v):
            setattr(L, "gfp" + s, F.cast("int(*)(int)", v))
        return dict(sym="gfp" + s, read=lambda F, L, F1: getattr(L, "gfp" + s)(21), expect=42,
                    raw=lambda F, L: _addr(F, getattr(L, "gfp" + s)), store=store)
    if kind == "gconst":
        # (the generator turns a const global of integer type into a constant: it has no address)
        return dict(sym=None, read=lambda F, L, F1: getattr(L, "gk" + s), expect=55)
    if kind == "kdouble":
        return dict(sym=None, read=lambda F, L, F1: getattr(L, "KD" + s), expect=2.5)
    if kind == "kstr":
        return dict(sym=None, read=lambda F, L, F1: F.string(getattr(L, "KS" + s)), expect=b"hello",
                    ptr=lambda F, L: _addr(F, getattr(L, "KS" + s)))
    if kind == "kstruct":
        return dict(sym=None, read=lambda F, L, F1: (getattr(L, "KST" + s).a, getattr(L, "KST" + s).b), expect=(3, 4),
                    typed=lambda F, L: (F.typeof(getattr(L, "KST" + s)), "struct ks_s" + s))
    raise ValueError(kind)
