"""C01 -- ABI-mode struct/union layout equals gcc's.

Bounded exhaustive enumeration (engine E1): every field sequence up to a depth
over a field-kind alphabet, x {struct, union} x packing x trailing flexible
array; oracle = gcc (sizeof/_Alignof/offsetof + byte image of every bitfield).
"""
import itertools
import re

from .. import build, cref, pool
from ..build import InfraError

ID = "C01"
LEVEL = "exploration"
META = dict(
    engine="E1-enum", level="exploration",
    technique="bounded exhaustive enumeration of aggregate declarations (all field sequences up to a depth over a "
              "field-kind alphabet) with gcc as layout oracle",
    text="Every struct/union built from all field sequences up to depth 3 (thorough 4) over a 25-kind alphabet, all "
         "ordered pairs over a ~185-kind alphabet covering every integer type and bitfield width class, enum / wide-character / "
         "complex / <stdint.h> field types, arrays of aggregates and fields that mention the enclosing aggregate itself, x "
         "packing (1..16) x flexible tails of six element types is declared in cffi and compiled by gcc; sizeof/alignof/offsetof and the storage bits of "
         "every bitfield are compared.  The layout loop only branches on comparisons the alphabet straddles, so this "
         "decides the property up to the stated depth.",
    note="gcc 12 on this machine (x86-64 SysV) is the authority; MSVC/ARM bitfield branches are compiled out and not judged")

INT_T = [("signed char", 8), ("unsigned char", 8), ("short", 16), ("unsigned short", 16),
         ("int", 32), ("unsigned int", 32), ("long", 64), ("unsigned long", 64),
         ("long long", 64), ("unsigned long long", 64)]

PRELUDE = ("struct N { char c; int i; };\nstruct V { short h; char t[]; };\n"
           "union U { int i; char c[5]; };\nstruct NB { int a:3; char c; };\n"
           "enum E { EA, EB = 5 };\nenum EU { EUA = 0x80000000u };\nenum EL { ELA = 0x100000000 };\nenum EN { ENA = -1 };\n")
# only for gcc (cffi knows these names by itself)
C_HEADERS = "#include <stdint.h>\n#include <wchar.h>\n#include <uchar.h>\n#include <sys/types.h>\n"


# A field kind is (key, decl_template, names) where decl_template uses {n} for the field's
# base name and names lists (cffi_path, c_path, is_bitfield) for every named leaf to check.
def K_reg(key, decl):
    return (key, decl, [(("{n}",), "{n}", False)], "reg")


def K_bf(key, typ, width, named=True):
    if named:
        return (key, "%s {n}:%d;" % (typ, width), [(("{n}",), "{n}", True)], "bf")
    return (key, "%s :%d;" % (typ, width), [], "ubf")


A_SMALL = [
    K_reg("char", "char {n};"),
    K_reg("short", "short {n};"),
    K_reg("int", "int {n};"),
    K_reg("llong", "long long {n};"),
    K_reg("double", "double {n};"),
    K_reg("ldouble", "long double {n};"),
    K_reg("ptr", "void *{n};"),
    K_reg("char3", "char {n}[3];"),
    K_reg("short2", "short {n}[2];"),
    ("nested", "struct N {n};", [(("{n}",), "{n}", False), (("{n}", "i"), "{n}.i", False)], "reg"),
    ("anons", "struct {{ char {n}a; short {n}b; }};",
     [(("{n}a",), "{n}a", False), (("{n}b",), "{n}b", False)], "anon"),
    ("anonu", "union {{ int {n}a; char {n}b; }};",
     [(("{n}a",), "{n}a", False), (("{n}b",), "{n}b", False)], "anon"),
    K_bf("sc:3", "signed char", 3),
    K_bf("uc:8", "unsigned char", 8),
    K_bf("s:9", "short", 9),
    K_bf("i:1", "int", 1),
    K_bf("i:7", "int", 7),
    K_bf("u:31", "unsigned int", 31),
    K_bf("u:32", "unsigned int", 32),
    K_bf("ll:33", "long long", 33),
    K_bf("ull:64", "unsigned long long", 64),
    K_bf("b:1", "_Bool", 1),
    K_bf("i:_5", "int", 5, named=False),
    K_bf("i:_0", "int", 0, named=False),
    K_bf("ll:_0", "long long", 0, named=False),
]


def _a_full():
    out = []
    for t, bits in INT_T:
        tk = t.replace(" ", "_")
        out.append(K_reg(tk, "%s {n};" % t))
        for w in (1, 2, 7, 8, 9, 15, 16, 17, 31, 32, 33, 63, 64):
            if w <= bits:
                out.append(K_bf("%s:%d" % (tk, w), t, w))
        for w in (0, 3, bits):
            out.append(K_bf("%s:_%d" % (tk, w), t, w, named=False))
    out.append(K_reg("_Bool", "_Bool {n};"))
    out.append(K_bf("_Bool:1", "_Bool", 1))
    out.append(K_bf("_Bool:_0", "_Bool", 0, named=False))
    out.append(K_bf("_Bool:_1", "_Bool", 1, named=False))
    out += [k for k in A_SMALL if k[3] in ("reg", "anon") and k[0] not in ("char", "short", "int", "llong")]
    out.append(K_reg("float", "float {n};"))
    out.append(K_reg("fnptr", "int (*{n})(void);"))
    out.append(K_reg("int2x2", "int {n}[2][2];"))
    out.append(K_reg("ld2", "long double {n}[2];"))
    out.append(("anonbf", "struct {{ int {n}a:3; unsigned {n}b:30; char {n}c; }};",
                [(("{n}a",), "{n}a", True), (("{n}b",), "{n}b", True), (("{n}c",), "{n}c", False)], "anon"))
    out.append(("anonnest", "struct {{ char {n}a; union {{ short {n}b; char {n}c; }}; }};",
                [(("{n}a",), "{n}a", False), (("{n}b",), "{n}b", False), (("{n}c",), "{n}c", False)], "anon"))
    out.append(("varnested", "struct V {n};", [(("{n}",), "{n}", False)], "reg"))
    # fields that mention the enclosing aggregate itself ({T} = 'struct aNN' / 'union aNN')
    out.append(K_reg("selfptr", "{T} *{n};"))
    out.append(K_reg("selfptr2", "{T} *{n}[2];"))
    out.append(K_reg("fn_selfptr_arg", "int (*{n})({T} *);"))
    out.append(K_reg("fn_self_arg", "void (*{n})({T});"))
    out.append(K_reg("fn_self_res", "{T} (*{n})(void);"))
    # more field types: enums of every underlying type, wide characters, complex, <stdint.h> names
    for key, decl in [("enum", "enum E {n};"), ("enum_u", "enum EU {n};"), ("enum_l", "enum EL {n};"),
                      ("enum_n", "enum EN {n};"), ("wchar", "wchar_t {n};"), ("char16", "char16_t {n};"),
                      ("char32", "char32_t {n};"), ("fcomplex", "float _Complex {n};"),
                      ("dcomplex", "double _Complex {n};"), ("int8", "int8_t {n};"), ("uint16", "uint16_t {n};"),
                      ("int_least32", "int_least32_t {n};"), ("uint_fast16", "uint_fast16_t {n};"),
                      ("intptr", "intptr_t {n};"), ("size_t", "size_t {n};"), ("ssize_t", "ssize_t {n};"),
                      ("ptrdiff", "ptrdiff_t {n};"), ("intmax", "intmax_t {n};"),
                      ("union_named", "union U {n};"), ("nested_bf", "struct NB {n};"),
                      ("arr_struct", "struct N {n}[2];"), ("arr_union", "union U {n}[3];"), ("arr_ptr", "void *{n}[3];"),
                      ("arr_fnptr", "int (*{n}[2])(int);"), ("ptr_arr", "int (*{n})[5];"), ("arr0", "int {n}[0];")]:
        out.append(K_reg(key, decl))
    out.append(K_bf("uint8:3", "uint8_t", 3))
    out.append(K_bf("int32:17", "int32_t", 17))
    out.append(K_bf("uint64:40", "uint64_t", 40))
    return out


A_FULL = _a_full()
ALPH = {"S": A_SMALL, "F": A_FULL}
FLEX = {None: None, "c": "char", "i": "int", "q": "long long", "ld": "long double", "p": "void *", "N": "struct N"}

# An aggregate descriptor: (su, ((alph, idx), ...), pack, flex)
#   su in 'struct'/'union'; pack in None / 'packed' / 1,2,4,8; flex in None,'c','i','q'


def kinds_of(desc):
    return [ALPH[a][i] for a, i in desc[1]]


def agg_text(desc, tag):
    su, _, pack, flex = desc
    lines = []
    leaves = []
    for j, k in enumerate(kinds_of(desc)):
        n = "f%d" % j
        lines.append("  " + k[1].format(n=n, T="%s %s" % (su, tag)))
        for path, cpath, isbf in k[2]:
            leaves.append((tuple(p.format(n=n) for p in path), cpath.format(n=n), isbf))
    if flex:
        lines.append("  %s tail[];" % FLEX[flex])
        leaves.append((("tail",), "tail", False))
    return "%s %s {\n%s\n};\n" % (su, tag, "\n".join(lines)), leaves


def valid(desc):
    """Rules that keep the declaration inside C (and inside the statement)."""
    su, fields, pack, flex = desc
    ks = kinds_of(desc)
    named = any(k[2] for k in ks)
    if not named:
        return False            # no named member: undefined in C
    if all(k[0] == "arr0" for k in ks if k[2]):
        return False            # only zero-length arrays: an object of size 0 is not C (gcc: 0, cffi: 1)
    if flex and su == "union":
        return False
    has_bf = any(k[3] in ("bf", "ubf") or k[0] == "anonbf" for k in ks)
    if pack is not None and has_bf:
        return False            # outside the statement
    # a struct with a flexible member may only be the last member (gcc extension otherwise);
    # keep 'varnested' only in last position of a struct, or anywhere in a union -> just last
    for j, k in enumerate(ks):
        if k[0] == "varnested" and (j != len(ks) - 1 or flex or su == "union"):
            return False
    return True


def classify(desc):
    ks = kinds_of(desc)
    cl = []
    if any(k[3] == "bf" for k in ks):
        cl.append("named_bitfield")
    if any(k[3] == "ubf" for k in ks):
        cl.append("unnamed_bitfield")
    if any(k[0].endswith("_0") for k in ks):
        cl.append("zero_width")
    if any(k[3] == "anon" for k in ks):
        cl.append("anonymous_member")
    if desc[2] is not None:
        cl.append("packed")
    if desc[3]:
        cl.append("flexible_tail")
    if desc[0] == "union":
        cl.append("union")
    return cl


# ---------------------------------------------------------------------------------------

def gcc_facts(descs):
    """Compile one program printing the layout facts of every aggregate of the block."""
    src = ["#include <stdio.h>\n#include <stddef.h>\n#include <string.h>\n", C_HEADERS, PRELUDE]
    body = []
    for i, d in enumerate(descs):
        tag = "a%d" % i
        text, leaves = agg_text(d, tag)
        pk = d[2]
        if pk is not None:
            src.append("#pragma pack(push, %d)\n" % (1 if pk == "packed" else pk))
        src.append(text)
        if pk is not None:
            src.append("#pragma pack(pop)\n")
        T = "%s %s" % (d[0], tag)
        body.append('printf("S %d %%zu %%zu\\n", sizeof(%s), _Alignof(%s));' % (i, T, T))
        for li, (path, cpath, isbf) in enumerate(leaves):
            if not isbf:
                body.append('printf("F %d %d %%zu\\n", offsetof(%s, %s));' % (i, li, T, cpath))
            else:
                body.append('{ %s x; memset(&x, 0, sizeof x); x.%s = -1; dump(%d, %d, &x, sizeof x); }' % (
                    T, cpath, i, li))
    src.append("static void dump(int i, int li, void *p, size_t n){ size_t k; printf(\"B %d %d \", i, li);"
               " for(k=0;k<n;k++) printf(\"%02x\", ((unsigned char*)p)[k]); printf(\"\\n\"); }\n")
    # put struct definitions with pragma pack for nested N too when packed: N is defined
    # once, unpacked, in the prelude -- the cffi side declares it in a separate unpacked cdef.
    src.append("int main(void){\n" + "\n".join(body) + "\nreturn 0;}\n")
    out = cref.run_c("".join(src))
    facts = {}
    for line in out.splitlines():
        p = line.split()
        if p[0] == "S":
            facts[int(p[1])] = {"size": int(p[2]), "align": int(p[3]), "off": {}, "img": {}}
        elif p[0] == "F":
            facts[int(p[1])]["off"][int(p[2])] = int(p[3])
        else:
            facts[int(p[1])]["img"][int(p[2])] = bytes.fromhex(p[3]) if len(p) > 3 else b""
    return facts


def _bits_of_image(img):
    return frozenset(8 * i + b for i, byte in enumerate(img) for b in range(8) if byte >> b & 1)


def cffi_check_one(ffi, d, tag, leaves, gf):
    """Compare one aggregate.  Returns list of (kind, info) mismatches."""
    bad = []
    T = "%s %s" % (d[0], tag)
    sz = ffi.sizeof(T)
    al = ffi.alignof(T)
    if sz != gf["size"]:
        bad.append(("size", {"cffi": sz, "gcc": gf["size"]}))
    if al != gf["align"]:
        bad.append(("align", {"cffi": al, "gcc": gf["align"]}))
    ct = ffi.typeof(T)
    for li, (path, cpath, isbf) in enumerate(leaves):
        if not isbf:
            off = ffi.offsetof(T, *path)
            if off != gf["off"][li]:
                bad.append(("offset", {"field": cpath, "cffi": off, "gcc": gf["off"][li]}))
        else:
            want = _bits_of_image(gf["img"][li])
            fld = dict(ct.fields)[path[0]]
            got = frozenset(8 * fld.offset + fld.bitshift + k for k in range(fld.bitsize))
            if got != want:
                bad.append(("bits", {"field": cpath, "cffi": sorted(got), "gcc": sorted(want)}))
            # and through the public API: write all-ones, look at the bytes
            p = ffi.new(T + " *")
            unsigned = fld.type.cname == "_Bool" or int(ffi.cast(fld.type.cname, -1)) > 0
            allones = (1 << fld.bitsize) - 1 if unsigned else -1
            try:
                setattr(p, path[0], allones)
                img = bytes(ffi.buffer(p))[:gf["size"]]
            except Exception as e:
                bad.append(("image", {"field": cpath, "error": "%s: %s" % (type(e).__name__, e),
                                      "width": fld.bitsize}))
            else:
                if _bits_of_image(img) != want:
                    bad.append(("image", {"field": cpath, "cffi": img.hex(), "gcc": gf["img"][li].hex(),
                                          "width": fld.bitsize}))
    return bad


def work(descs):
    """One block: same packing for all aggregates (grouped by the driver)."""
    import cffi
    facts = gcc_facts(descs)
    pk = descs[0][2]
    kw = {}
    if pk == "packed":
        kw["packed"] = True
    elif pk is not None:
        kw["pack"] = pk
    texts = []
    for i, d in enumerate(descs):
        texts.append(agg_text(d, "a%d" % i))
    res = []

    def mk():
        f = cffi.FFI()
        f.cdef(PRELUDE)
        return f
    ffi = mk()
    whole_ok = True
    try:
        ffi.cdef("".join(t for t, _ in texts), **kw)
    except Exception:
        whole_ok = False
    for i, d in enumerate(descs):
        text, leaves = texts[i]
        f = ffi
        try:
            if not whole_ok:
                f = mk()
                f.cdef(text, **kw)
            bad = cffi_check_one(f, d, "a%d" % i, leaves, facts[i])
        except Exception as e:
            bad = [("rejected", {"error": "%s: %s" % (type(e).__name__, e)})]
        if bad:
            res.append((d, text, bad))
    return len(descs), res


# ---------------------------------------------------------------------------------------

def enumerate_space(ctx):
    """Yield every aggregate descriptor of the tier's bound, simplest first."""
    depth_small = 3 if ctx.quick else 4
    nS, nF = len(A_SMALL), len(A_FULL)
    seen = 0
    for su in ("struct", "union"):
        for n in range(1, depth_small + 1):
            for idx in itertools.product(range(nS), repeat=n):
                yield (su, tuple(("S", i) for i in idx), None, None)
        # all ordered pairs over A_full (+ singletons)
        for i in range(nF):
            yield (su, (("F", i),), None, None)
        for i, j in itertools.product(range(nF), repeat=2):
            yield (su, (("F", i), ("F", j)), None, None)
        if not ctx.quick:
            small_pairs = list(itertools.product(range(nS), repeat=2))
            for i in range(nF):
                for a, b in small_pairs:
                    yield (su, (("F", i), ("S", a), ("S", b)), None, None)
                    yield (su, (("S", a), ("F", i), ("S", b)), None, None)
                    yield (su, (("S", a), ("S", b), ("F", i)), None, None)
    # packing and flexible tails on bitfield-free sequences
    regS = [i for i, k in enumerate(A_SMALL) if k[3] in ("reg", "anon")]
    regF = [i for i, k in enumerate(A_FULL) if k[3] in ("reg", "anon") and k[0] != "anonbf"]
    dpk = 3 if ctx.quick else 4
    for su in ("struct", "union"):
        for pk in ("packed", 1, 2, 4, 8):
            for n in range(1, dpk + 1):
                if pk in (1, 8) and n > 3:
                    continue
                for idx in itertools.product(regS, repeat=n):
                    yield (su, tuple(("S", i) for i in idx), pk, None)
            for i, j in itertools.product(regF, repeat=2):
                yield (su, (("F", i), ("F", j)), pk, None)
    for fl in ("ld", "p", "N"):
        for n in range(1, 3):
            for idx in itertools.product(range(nS), repeat=n):
                yield ("struct", tuple(("S", i) for i in idx), None, fl)
    for su in ("struct", "union"):
        for n in range(1, 3):
            for idx in itertools.product(regS, repeat=n):
                yield (su, tuple(("S", i) for i in idx), 16, None)
    for fl in ("c", "i", "q"):
        for n in range(1, (2 if ctx.quick else 3) + 1):
            for idx in itertools.product(range(nS), repeat=n):
                yield ("struct", tuple(("S", i) for i in idx), None, fl)
        for pk in ("packed", 2, 4):
            for n in range(1, 3):
                for idx in itertools.product(regS, repeat=n):
                    yield ("struct", tuple(("S", i) for i in idx), pk, fl)


def run(ctx):
    bypack = {}
    total = excluded = 0
    nontrivial = set()
    for d in enumerate_space(ctx):
        total += 1
        if not valid(d):
            excluded += 1
            continue
        bypack.setdefault(d[2], []).append(d)
    blocks = []
    for pk, lst in bypack.items():
        blocks.extend(pool.chunks(lst, 1500))
    ctx.log("enumerated %d aggregates (%d excluded as not C / outside statement), %d blocks" % (
        total, excluded, len(blocks)))
    for lst in bypack.values():
        for d in lst:
            cl = classify(d)
            for c in cl:
                ctx.count(c)
            if cl:
                nontrivial.add(d)
            ctx.sample({"decl": agg_text(d, "a")[0], "pack": d[2]})
    evaluated = 0
    for block, r in pool.pmap(work, [[b] for b in blocks]):
        if isinstance(r, pool.WorkerError):
            raise InfraError("worker failed: %s" % r.tb)
        if isinstance(r, pool.Crash):
            ctx.violation({"kind": "crash"}, {"block": block, "how": r.describe()})
            continue
        n, res = r
        evaluated += n
        for d, text, bad in res:
            for kind, info in bad:
                selfval = kind == "rejected" and any(k[0] in ("fn_self_arg", "fn_self_res") for k in kinds_of(d))
                ctx.violation({"kind": kind, "width64": info.get("width") == 64, "self_by_value_in_fnptr": selfval},
                              {"desc": d, "decl": text, "pack": d[2], "kind": kind, "info": info})
    cov = {
        "evaluations": evaluated,
        "distinct_nontrivial": len(nontrivial),
        "rule": "every field sequence of length <= %d over the %d-kind alphabet A_small and every ordered pair over the "
                "%d-kind alphabet A_full%s, as struct and as union; bitfield-free sequences again under packed=True and "
                "pack in {1,2,4,8,16}; structs again with trailing char[]/int[]/long long[]/long double[]/void*[]/struct N[]; non-trivial = contains a "
                "bitfield, an anonymous member, packing, a flexible tail or is a union (distinct descriptors counted)" % (
                    3 if ctx.quick else 4, len(A_SMALL), len(A_FULL),
                    "" if ctx.quick else " and every triple A_full x A_small x A_small in all three positions"),
        "exhaustive": True,
        "excluded_not_C": excluded,
        "bound": {"depth_A_small": 3 if ctx.quick else 4, "pairs_A_full": True, "triples": not ctx.quick},
    }
    return ctx.finish(cov, ["gcc %s on this machine is the layout authority" % "12",
                            "x86-64 SysV bitfield rules (the GCC branch of the layout code); MSVC/ARM branches compiled out"])


def replay(detail):
    import cffi
    d = detail["desc"]
    d = (d[0], tuple(tuple(x) for x in d[1]), d[2], d[3])
    n, res = work([d])
    print(agg_text(d, "a0")[0])
    print("pack:", d[2])
    for _, _, bad in res:
        for b in bad:
            print("MISMATCH", b)
    if not res:
        print("no mismatch")
    return 1 if res else 0
