"""Shared corpus of valid cdef texts (used by C30, C31 and later C23).

A plain list of (name, cdef_text).  Every entry is accepted by FFI.cdef() on
its own in a fresh FFI and covers at least one construct that
cparser._preprocess / _common_type_names / _process_macros rewrites or looks
at: the `...` forms (struct tail, enum tail, enum value, array length, typedef
of unknown type / pointer / integer / float), `#define` with literals and with
`...`, extern "Python" (plain, "Python+C", block form, followed by ordinary
declarations), __stdcall / __cdecl / WINAPI, partial enums, bitfields,
function pointers, `static const`, existing comments / line directives /
continuation lines, and the common types (FILE, size_t, stdint names,
re-typedef'ed common names).

No entry depends on another one.  Texts end with a newline.
"""

CORPUS = [
    ("prim_funcs",
     "int f1(int, long);\nvoid f2(void);\ndouble f3(float x, char *s);\n"),
    ("varargs",
     "int my_printf(const char *fmt, ...);\nextern int (*vfp)(int, ...);\n"),
    ("struct_plain",
     "struct p { int x; short y; char z[3]; };\n"),
    ("struct_partial",
     "struct sp { int x; ...; };\n"),
    ("struct_partial_only",
     "struct spo { ...; };\nstruct spo *get_spo(void);\n"),
    ("struct_nested_anon",
     "struct outer { int a; struct { int b; char c; }; union { int d; float e; } u; };\n"),
    ("typedef_struct_partial",
     "typedef struct { int a; ...; } tsp_t;\ntsp_t *mk_tsp(int);\n"),
    ("union_plain",
     "union uu { int i; float f; char bytes[4]; };\n"),
    ("opaque_struct",
     "struct opq;\nstruct opq *mk(void);\nvoid rel(struct opq *);\n"),
    ("enum_plain",
     "enum color { RED, GREEN = 5, BLUE };\n"),
    ("enum_partial_tail",
     "enum ep { EA, EB, ... };\n"),
    ("enum_partial_only",
     "enum eo { ... };\nenum eo get_eo(void);\n"),
    ("enum_partial_value",
     "enum ev { VA = ..., VB, VC = ... };\n"),
    ("enum_exprs",
     "enum en { NA = -1, NB = 1 << 4, NC = 'a', ND = NB + 2 };\n"),
    ("typedef_enum_partial",
     "typedef enum { TA, TB, ... } te_t;\nte_t next_te(te_t);\n"),
    ("array_partial_global",
     "extern int arr[...];\nextern int grid[...][4];\n"),
    ("array_partial_field",
     "struct sa { int n; char buf[...]; };\n"),
    ("typedef_array_partial",
     "typedef int row_t[...];\ntypedef char name_t[...][8];\n"),
    ("typedef_dots",
     "typedef ... opaque_t;\ntypedef ... *handle_t;\nopaque_t *open_it(handle_t);\n"),
    ("typedef_int_dots",
     "typedef int... myint_t;\ntypedef unsigned long... myulong_t;\nmyint_t addi(myint_t, myulong_t);\n"),
    ("typedef_float_dots",
     "typedef float... myflt_t;\ntypedef double... mydbl_t;\nmyflt_t addf(mydbl_t);\n"),
    ("define_literals",
     "#define DA 1\n#define DB 0x10\n#define DC 010\n#define DD -2\n#define DE 5UL\n"),
    ("define_dots",
     "#define MAXLEN ...\n#define OTHER ...\n"),
    ("define_then_use",
     "#define N 4\nstruct du { int a[N]; char b[N + 1]; };\n"),
    ("define_between_decls",
     "int before(void);\n#define MID 7\nint after(int);\n"),
    ("define_continuation",
     "#define CONT \\\n  12\nint ac(void);\n"),
    ("extern_python",
     "extern \"Python\" int cb(int, int);\n"),
    ("extern_python_plus_c",
     "extern \"Python+C\" void cb2(void *);\n"),
    ("extern_python_block",
     "extern \"Python\" {\n  int cb3(int);\n  void cb4(void);\n}\n"),
    ("extern_python_then_normal",
     "extern \"Python\" int cb5(int);\nint normal_after(int);\n"),
    ("stdcall",
     "int __stdcall sf(int);\nextern int (__stdcall *sfp)(int);\n"),
    ("cdecl",
     "int __cdecl cf(int);\ntypedef int (__cdecl *cfp_t)(int);\n"),
    ("winapi",
     "int WINAPI wf(int);\ntypedef int (WINAPI *wfp_t)(void *);\n"),
    ("bitfields",
     "struct bf { int a:3; unsigned b:5; int :0; int c:1; };\n"),
    ("funcptr",
     "typedef int (*fp_t)(int, char);\nstruct ops { fp_t op; void (*cb)(void *, int); };\n"
     "int (*getfp(int))(long);\n"),
    ("static_const",
     "static const int SC1 = 42;\nstatic const int SC2 = -3;\nstatic const long SC3 = 0x7f;\n"),
    ("const_nonint",
     "static const double PI;\nstatic char *const NAME;\nconst int CI;\n"),
    ("globals",
     "extern int gv;\nextern char *gs;\nextern const char gc[10];\n"),
    ("common_FILE",
     "FILE *myopen(const char *);\nint myclose(FILE *);\n"),
    ("common_size_t",
     "size_t mylen(const char *);\nssize_t rd(int, void *, size_t);\ntypedef size_t mysz_t;\n"),
    ("common_stdint",
     "uint8_t u8(int32_t, uint64_t);\nextern intptr_t ip;\nwchar_t wc(void);\n_Bool b1(bool);\n"),
    ("common_redefined",
     "typedef unsigned char uint8_t;\ntypedef long ssize_t, *ssize_p;\nssize_t f35(uint8_t, ssize_p);\n"),
    ("typedef_multi",
     "typedef int i_t, *ip_t;\ntypedef struct tag_s { i_t v; } tag_t, *tag_p;\n"),
    ("pointer_const",
     "const char *const *pp(char *const *, int *volatile const);\n"),
    ("long_double_complex",
     "long double ld(long double);\nfloat _Complex fc(double _Complex);\n"),
    ("existing_comments",
     "/* c1 */ int c1(int); // c2\nint c2(int); /* multi\nline */\nunsigned/* only separator */long/**/c3(void);\n"),
    ("existing_line_directives",
     "# 1 \"inc//hdr...h\"\nint ld1(int);\n#line 5 \"inc//hdr...h\"\nint ld2(int);\n"),
]

NAMES = [n for n, _ in CORPUS]
assert len(set(NAMES)) == len(NAMES)


# ---------------------------------------------------------------------------
# A small C tokenizer that does not depend on pycparser (used by C30 to mutate
# the corpus token by token and by C31 to find every token gap).

class Tok(object):
    __slots__ = ("start", "end", "text", "kind", "pp")

    def __init__(self, start, end, text, kind, pp):
        self.start = start      # offset of the first character
        self.end = end          # offset after the last character
        self.text = text
        self.kind = kind        # 'id' 'num' 'str' 'chr' 'dots' 'punct' 'pp_define' 'pp_line'
        self.pp = pp            # index of the '#' line this token belongs to, or None

    def __repr__(self):
        return "Tok(%d,%d,%r,%s,%r)" % (self.start, self.end, self.text, self.kind, self.pp)


_IDCH = set("abcdefghijklmnopqrstuvwxyzABCDEFGHIJKLMNOPQRSTUVWXYZ0123456789_$")


def tokenize(text):
    """Return (tokens, pplines).  pplines[k] = (hash_pos, eol_pos, kind): the span of
    the k-th preprocessor line from its '#' to the newline that ends it (continuation
    lines included), kind in {'define', 'line', 'other'}.

    Tokens: identifiers/numbers (maximal runs of [A-Za-z0-9_$]), string and character
    literals kept whole, '...' kept whole, '<<' '>>' kept whole, any other non-blank
    character alone; '#define' (the '#', optional blanks, 'define') is one token and the
    rest of that line is tokenized normally; any other '#' line (line directives,
    pragmas) is ONE token.  Blanks, newlines, backslash-newline and comments are not
    tokens: they belong to the gap between two tokens."""
    toks = []
    pplines = []
    i, n = 0, len(text)
    at_line_start = True
    cur_pp = None
    while i < n:
        c = text[i]
        if c == "\\" and i + 1 < n and text[i + 1] == "\n":
            i += 2                       # continuation: stays inside the '#' line
            continue
        if c == "\n":
            if cur_pp is not None:
                h, _, k = pplines[cur_pp]
                pplines[cur_pp] = (h, i, k)
                cur_pp = None
            at_line_start = True
            i += 1
            continue
        if c in " \t\r\f\v":
            i += 1
            continue
        if text.startswith("/*", i):
            j = text.find("*/", i + 2)
            j = n if j < 0 else j + 2
            i = j
            continue
        if text.startswith("//", i):
            j = text.find("\n", i)
            i = n if j < 0 else j
            continue
        if c == "#" and at_line_start and cur_pp is None:
            j = i + 1
            while j < n and text[j] in " \t":
                j += 1
            k = j
            while k < n and text[k] in _IDCH:
                k += 1
            word = text[j:k]
            if word == "define":
                pplines.append((i, n, "define"))
                cur_pp = len(pplines) - 1
                toks.append(Tok(i, k, text[i:k], "pp_define", cur_pp))
                i = k
            else:
                e = text.find("\n", i)
                e = n if e < 0 else e
                kind = "line" if (word == "line" or word.isdigit()) else "other"
                pplines.append((i, e, kind))
                toks.append(Tok(i, e, text[i:e], "pp_line", len(pplines) - 1))
                i = e
            at_line_start = False
            continue
        at_line_start = False
        if c in _IDCH:
            j = i + 1
            while j < n and text[j] in _IDCH:
                j += 1
            toks.append(Tok(i, j, text[i:j], "num" if c.isdigit() else "id", cur_pp))
            i = j
            continue
        if c == '"' or c == "'":
            j = i + 1
            while j < n and text[j] != c and text[j] != "\n":
                j += 2 if text[j] == "\\" else 1
            j = min(n, j + 1)
            toks.append(Tok(i, j, text[i:j], "str" if c == '"' else "chr", cur_pp))
            i = j
            continue
        if text.startswith("...", i):
            toks.append(Tok(i, i + 3, "...", "dots", cur_pp))
            i += 3
            continue
        if text.startswith("<<", i) or text.startswith(">>", i):
            toks.append(Tok(i, i + 2, text[i:i + 2], "punct", cur_pp))
            i += 2
            continue
        toks.append(Tok(i, i + 1, c, "punct", cur_pp))
        i += 1
    if cur_pp is not None:
        h, _, k = pplines[cur_pp]
        pplines[cur_pp] = (h, n, k)
    return toks, pplines
