"""C02 supplement (family E): bitfields inside ANONYMOUS nested structs/unions.

The members of an anonymous struct/union are reachable as fields of the enclosing
object, so the statement covers them; their storage is decided by the nested
aggregate (a union restarts every member at bit 0, a nested struct starts a new
aligned storage unit).  In-line mode keeps the nesting; API mode flattens the
nested members into the enclosing struct when it emits the field table, and
bitfields are the one kind of field whose offset it cannot ask the C compiler
for.  Every shape x placement below is checked in both modes against accessors
compiled by gcc: cffi stores / C reads, C stores / cffi reads, and the byte image.
"""
import ctypes
import importlib.util
import os

from .. import build, cref

TYPES = [("unsigned char", 8, False), ("signed char", 8, True), ("unsigned int", 32, False), ("int", 32, True),
         ("unsigned long long", 64, False)]

SHAPES = {
    # name: (outer keyword, template); %(T)s type, %(k)d width of the member before f, %(w)d width of f
    "union-in-struct": ("struct", "int pre; union { %(T)s a:%(k)d; %(T)s f:%(w)d; }; int post;"),
    "union-in-struct-first": ("struct", "union { %(T)s a:%(k)d; %(T)s f:%(w)d; }; char post;"),
    "struct-in-union": ("union", "struct { %(T)s a:%(k)d; %(T)s f:%(w)d; }; %(T)s whole;"),
    "struct-in-struct-after-bitfield": ("struct", "%(T)s a:%(k)d; struct { %(T)s f:%(w)d; }; char post;"),
    "struct-in-struct-after-byte": ("struct", "char a; struct { %(T)s b:%(k)d; %(T)s f:%(w)d; }; char post;"),
    "union-in-union": ("union", "union { %(T)s a:%(k)d; %(T)s f:%(w)d; }; %(T)s whole;"),
}


def shapes():
    out = []
    for sname in sorted(SHAPES):
        outer, tmpl = SHAPES[sname]
        for T, bits, sg in TYPES:
            for k in (1, 3, 5, 7):
                for w in (1, 2, 5, bits - k):
                    if 1 <= w and k + w <= bits:
                        out.append((sname, outer, T, bits, sg, k, w, tmpl % {"T": T, "k": k, "w": w}))
    return out


def _decls(items):
    return "".join("%s e%d { %s };\n" % (it[1], i, it[7]) for i, it in enumerate(items))


def _accessors(items):
    src = []
    for i, it in enumerate(items):
        vt = "long long" if it[4] else "unsigned long long"
        src.append("void eset_%d(%s e%d *p, %s v) { p->f = v; }\n" % (i, it[1], i, vt))
        src.append("%s eget_%d(%s e%d *p) { return p->f; }\n" % (vt, i, it[1], i))
        src.append("int esize_%d(void) { return sizeof(%s e%d); }\n" % (i, it[1], i))
    return "".join(src)


def work(arg):
    """One mode over all shapes; runs in a crash-contained worker."""
    mode = arg
    import cffi
    items = shapes()
    if mode == "inline":
        clib = cref.load_c(_decls(items) + _accessors(items))
        ffi = cffi.FFI()
        ffi.cdef(_decls(items))
    else:
        d = os.path.join(build.scratch(), "c02anon")
        os.makedirs(d, exist_ok=True)
        f0 = cffi.FFI()
        f0.cdef(_decls(items))
        name = "_c02anon_%d" % os.getpid()
        f0.set_source(name, _decls(items) + _accessors(items), extra_compile_args=["-O0", "-g0", "-w"])
        so = f0.compile(tmpdir=d, verbose=False)
        spec = importlib.util.spec_from_file_location(name, so)
        mod = importlib.util.module_from_spec(spec)
        spec.loader.exec_module(mod)
        ffi = mod.ffi
        clib = ctypes.CDLL(so)
    bad = []
    ncases = 0
    for i, it in enumerate(items):
        sname, outer, T, bits, sg, k, w, body = it
        lo, hi = (-(1 << (w - 1)), (1 << (w - 1)) - 1) if sg else (0, (1 << w) - 1)
        cset = getattr(clib, "eset_%d" % i)
        cget = getattr(clib, "eget_%d" % i)
        cty = ctypes.c_longlong if sg else ctypes.c_ulonglong
        cset.argtypes = [ctypes.c_void_p, cty]
        cset.restype = None
        cget.argtypes = [ctypes.c_void_p]
        cget.restype = cty
        size = getattr(clib, "esize_%d" % i)()
        tn = "%s e%d" % (outer, i)
        try:
            if ffi.sizeof(tn) != size:
                bad.append((it, "sizeof", {"cffi": ffi.sizeof(tn), "gcc": size}))
                continue
            p = ffi.new(tn + " *")
            buf = ffi.buffer(p)
        except Exception as e:
            bad.append((it, "rejected", {"error": "%s: %s" % (type(e).__name__, e)}))
            continue
        cbuf = ctypes.create_string_buffer(size)
        caddr = ctypes.addressof(cbuf)
        for bgbyte in (0x00, 0xFF):
            bg = bytes([bgbyte]) * size
            for v in sorted({lo, hi, 0, 1 if hi >= 1 else 0, hi // 2, lo // 2, hi + 1, lo - 1}):
                ncases += 1
                buf[:] = bg
                inrange = lo <= v <= hi or (sg and w == 1 and v == 1)
                try:
                    p.f = v
                    ok = True
                except OverflowError:
                    ok = False
                except Exception as e:
                    bad.append((it, "wrong-exception", {"v": v, "error": "%s: %s" % (type(e).__name__, e)}))
                    continue
                if ok != inrange:
                    bad.append((it, "accepts-out-of-range" if ok else "rejects-in-range", {"v": v}))
                    continue
                img = bytes(buf)
                if not ok:
                    if img != bg:
                        bad.append((it, "rejected-but-modified", {"v": v}))
                    continue
                want = -1 if (sg and w == 1 and v == 1) else v
                if p.f != want:
                    bad.append((it, "readback", {"v": v, "got": p.f}))
                ctypes.memmove(caddr, bg, size)
                cset(caddr, v)
                cimg = cbuf.raw
                if img != cimg:
                    bad.append((it, "image", {"v": v, "bg": bgbyte, "cffi": img.hex(), "gcc": cimg.hex()}))
                    continue
                ctypes.memmove(caddr, img, size)
                if cget(caddr) != want:
                    bad.append((it, "c-reads-other", {"v": v, "c": cget(caddr)}))
                buf[:] = cimg
                if p.f != want:
                    bad.append((it, "cffi-reads-other", {"v": v, "cffi": p.f}))
    return len(items), ncases, bad
