"""C13 -- all call paths to a C function agree.

E1: a signature alphabet (every unary `R f(A)` over 22 argument and 23 result types,
`X f(X)` for every other integer/char type name, all binary functions over an 8-type
subset, two 6-argument mixed functions, two variadic functions) x per-type argument
alphabets (boundary-complete integers, a pool of wrong-type objects applied to every
type, lists/bytes/NULL/void*/from_buffer for pointers, full and partial initialisers
for structs).  Every tuple is executed through four paths that end in the same
machine code:

  1. API-mode `lib.f` (generated `_cffi_f_` wrapper, `_cffi_to_c_*` macros)
  2. `ffi.addressof(lib, "f")` (generated `_cffi_d_` stub called through libffi)
  3. in-line ABI `FFI().dlopen(<the module's .so>).f`
  4. out-of-line ABI module (`emit_python_code`) `.ffi.dlopen(<the same .so>).f`

Oracle: the four observations (outcome class = converted value or exception type,
bytes of every caller-owned buffer afterwards, ffi.errno afterwards, whether C was
reached and which errno it saw on entry) are pairwise equal.
"""
import collections
import contextlib
import ctypes
import importlib.util
import io
import itertools
import json
import os
import shutil
import struct
import sys
import time

from .. import build, cref, pool
from ..build import InfraError

ID = "C13"
LEVEL = "exploration"
META = dict(
    engine="E1-enum", level="exploration",
    technique="exhaustive enumeration of a signature alphabet x per-type argument alphabets, each tuple executed "
              "through the four call paths of one compiled library; pairwise differential oracle",
    text="Every unary R f(A) over 22x23 types (all standard integer types, _Bool, char, wchar_t, float, double, "
         "char*/int*/struct*, 4 by-value structs, void result), X f(X) for 33 further integer/char type names, all "
         "binary functions over an 8-type subset, two 6-argument mixed functions and two variadic functions are "
         "compiled into API-mode modules whose .so is also dlopen()ed by an in-line and an out-of-line ABI FFI.  "
         "Each function is called with every element of its argument alphabet (B(T) boundary integers, ~50 "
         "wrong-type objects, lists/bytes/NULL/void*/from_buffer for pointers, full and partial struct initialisers, "
         "wrong arity, keywords) through lib.f, ffi.addressof(lib,'f'), in-line dlopen and out-of-line dlopen; value "
         "or exception type, caller-owned memory, ffi.errno and the errno seen by C must coincide on all four.",
    note="differential between cffi's own paths (no external authority is needed by the statement); gcc only "
         "supplies the integer ranges; ctypes reads the C-side call counter and entry errno")

HARNESS = os.path.join(build.VERIF, "harness")

STD_INTS = ["signed char", "unsigned char", "short", "unsigned short", "int", "unsigned int",
            "long", "unsigned long", "long long", "unsigned long long"]
EXT_INTS = ["int8_t", "uint8_t", "int16_t", "uint16_t", "int32_t", "uint32_t", "int64_t", "uint64_t",
            "intptr_t", "uintptr_t", "size_t", "ssize_t", "ptrdiff_t", "intmax_t", "uintmax_t",
            "int_least8_t", "uint_least8_t", "int_least16_t", "uint_least16_t", "int_least32_t",
            "uint_least32_t", "int_least64_t", "uint_least64_t", "int_fast8_t", "uint_fast8_t",
            "int_fast16_t", "uint_fast16_t", "int_fast32_t", "uint_fast32_t", "int_fast64_t", "uint_fast64_t"]
STRUCTS = ["struct s1", "struct s2", "struct s3", "struct s4"]
CORE = STD_INTS + ["_Bool", "char", "wchar_t", "float", "double", "char *", "int *", "struct s3 *"] + STRUCTS
XPTRS = ["unsigned char *", "_Bool *", "void *", "wchar_t *"]
XINTS = ["u16_t", "i64_t", "enum e1", "enum e2"]      # typedef'ed integers and enums (declared below)
EXT = EXT_INTS + XINTS + ["char16_t", "char32_t"] + XPTRS
PTR_KINDS = ("pc", "pi", "ps", "puc", "pb", "pv", "pw")
BIN8 = ["signed char", "unsigned short", "int", "unsigned long", "float", "double", "int *", "struct s3"]

STRUCT_DECLS = """
typedef unsigned short u16_t;
typedef long long i64_t;
enum e1 { E1A, E1B = 5, E1C = 4000000000 };
enum e2 { E2A = -1, E2B = 3 };
struct s1 { unsigned char a; };
struct s2 { float x; float y; };
struct s3 { long a; double b; };
struct s4 { int a; char c[5]; double d; long long e; short s; struct s1 n; };
"""


def kind_of(t):
    if t in STD_INTS or t in EXT_INTS or t in XINTS:
        return "int"
    if "(*" in t:
        return "fp"
    return {"unsigned char *": "puc", "_Bool *": "pb", "void *": "pv", "wchar_t *": "pw", "_Bool": "bool", "char": "char", "wchar_t": "wchar", "char16_t": "wchar", "char32_t": "wchar",
            "float": "float", "double": "float", "char *": "pc", "int *": "pi", "struct s3 *": "ps",
            "void": "void"}.get(t) or ("struct" if t in STRUCTS else None)


_FACTS = None


def facts():
    """{integer type name: (lo, hi)} measured by gcc."""
    global _FACTS
    if _FACTS is None:
        f = dict(cref.int_facts(extra_types=tuple(EXT_INTS + ["wchar_t", "char16_t", "char32_t"])))
        src = "#include <stdio.h>\n" + STRUCT_DECLS + "int main(void){\n"
        for t in XINTS:
            src += 'printf("%%s|%%d|%%d\\n", "%s", (int)sizeof(%s), (int)(((%s)-1) < (%s)0));\n' % (t, t, t, t)
        src += "return 0;}\n"
        for line in cref.run_c(src).splitlines():
            t, size, sg = line.split("|")
            f[t] = (int(size), bool(int(sg)), None)
        _FACTS = {}
        for t, (size, signed, _al) in f.items():
            _FACTS[t] = cref.int_range(size, signed, is_bool=(t == "_Bool"))
    return _FACTS


# ------------------------------------------------------------------------------------
# generated C

def c_in(t, v):
    k = kind_of(t)
    if k in ("int", "bool", "char", "wchar"):
        return "(H)(long long)%s" % v
    if t == "float":
        return "c13_fbits(%s)" % v
    if t == "double":
        return "c13_dbits(%s)" % v
    if k in PTR_KINDS:
        return "c13_in_%s(%s)" % (k, v)
    if k == "fp":
        return "(H)((%s) != 0)" % v
    return "c13_in_%s(%s)" % (t.split()[1], v)


def c_out(t, h):
    k = kind_of(t)
    if k == "bool":
        return "(_Bool)((%s) & 1)" % h
    if t in ("wchar_t", "char32_t"):
        return "(%s)((%s) %% 0x110002ULL)" % (t, h)     # mostly valid code points, sometimes 0x110000/1
    if k in ("int", "char", "wchar"):
        return "(%s)(%s)" % (t, h)
    if t == "float":
        return "((float)(long long)(%s) / 8.0f)" % h
    if t == "double":
        return "((double)(long long)(%s) / 8.0)" % h
    if k in PTR_KINDS:
        return "(%s)c13_out_p(%s)" % (t, h)
    return "c13_out_%s(%s)" % (t.split()[1], h)


FDECL = {"c13_retfp": "int (*c13_retfp(int))(int);"}


def fn_decl(fn):
    fam, name, R, A = fn
    if name in FDECL:
        return FDECL[name]
    if fam == "v":
        return "%s %s(%s, ...);" % (R, name, A[0])
    return "%s %s(%s);" % (R, name, ", ".join(A) or "void")


def fn_body(fn):
    fam, name, R, A = fn
    if fam in ("v", "f"):
        return ""          # in the prelude
    params = ", ".join("%s a%d" % (t, i) for i, t in enumerate(A)) or "void"
    lines = ["%s %s(%s)\n{\n    H h = 0x1234;\n" % (R, name, params)]
    for i, t in enumerate(A):
        lines.append("    h = h * 1000003ULL + %s;\n" % c_in(t, "a%d" % i))
    if R == "void":
        lines.append("    c13_done(h);\n}\n")
    else:
        if len(A) == 1 and A[0] == R:
            lines.append("    %s r = a0;\n" % R)                      # identity: exact pass-through
        elif len(A) == 1 and kind_of(R) in PTR_KINDS and kind_of(A[0]) in PTR_KINDS:
            lines.append("    %s r = (%s)a0;\n" % (R, R))             # pointer in, pointer out
        else:
            lines.append("    %s r = %s;\n" % (R, c_out(R, "h")))
        lines.append("    c13_done(h);\n    return r;\n}\n")
    return "".join(lines)


def prelude_text():
    with open(os.path.join(HARNESS, "c13_prelude.h")) as f:
        return f.read()


# ------------------------------------------------------------------------------------
# argument alphabets.  A spec is a small picklable description that each path turns into
# its own object with its own FFI (a cdata of one FFI is not handed to another).

POOL = [
    ("py", None), ("py", 1.5), ("py", 1.0), ("py", -0.0), ("py", 1e300), ("py", float("inf")), ("py", float("nan")),
    ("py", "x"), ("py", b"x"), ("py", ""), ("py", b""), ("py", "ab"), ("py", b"ab"), ("py", "€"),
    ("py", "\U0001f600"), ("py", b"\xff"), ("py", [1]), ("py", (1,)), ("py", True), ("py", False),
    ("py", 0), ("py", 1), ("py", -1),
    ("cast", "int", 5), ("cast", "short", -3), ("cast", "long long", -1), ("cast", "unsigned long long", 2 ** 64 - 1),
    ("cast", "_Bool", 1), ("cast", "char", b"A"), ("cast", "wchar_t", "z"), ("cast", "float", 2.5),
    ("cast", "double", 1.0), ("cast", "void *", 0), ("cast", "int *", 0), ("cast", "void(*)(int)", 0),
    ("null",), ("new", "int[2]", [1, 5]), ("new", "struct s3 *", [3, 4.5]),
    ("deref", "struct s1 *", [7]), ("deref", "struct s3 *", [1, 2.0]),
    ("obj", "int", 7), ("obj", "index", 7), ("obj", "float", 2.5),
    # cdata of the remaining primitive kinds and of the other cdata object types (CData_Check is a fixed list)
    ("cast", "long double", 2.5), ("cast", "char16_t", "A"), ("cast", "char32_t", "\U0010ffff"), ("cast", "enum e1", 1),
    ("cast", "float _Complex", 1 + 0j), ("gc", "int[2]", [1, 5]), ("gc", "struct s3 *", [3, 4.5]),
    ("callback", "int(*)(int)"),
    # (no ffi.new_handle() object here: it converts to every pointer parameter and the C side would then read or
    #  call the memory of a Python object)
]

S4_FULL = (1, b"abcde", 2.5, -3, 4, (5,))

SPECIFIC = {
    "char": [("py", bytes([v])) for v in (0, 1, 0x41, 0x7f, 0x80, 0xff)] + [("py", v) for v in (65, 255, 256)]
            + [("cast", "char", bytes([v])) for v in (0, 1, 0x7f, 0x80, 0xc8, 0xff)],      # a cdata of the same type
    "wchar": [("py", s) for s in ("\x00", "a", "\x7f", "\x80", "\xff", "Ā", "퟿", "\ud800", "\udfff",
                                  "", "￿", "\U00010000", "\U0010ffff")]
             + [("py", v) for v in (65, 0x110000)]
             + [("cast", "wchar_t", c) for c in ("\x00", "\x80", "\uffff", "\U00010000", "\U0010ffff")],
    "float": [("py", v) for v in (0.0, -2.25, 5e-324, 1e-320, 2.2250738585072014e-308, 1.7976931348623157e308,
                                  3.4028234663852886e38, 3.4028235677973366e38, 1e39, -1e39, 1e-46,
                                  1.401298464324817e-45, 7.006492321624085e-46, float("-inf"),
                                  16777217.0, 0.1)]
             + [("py", v) for v in (2 ** 24 + 1, 2 ** 53, 2 ** 53 + 1, 2 ** 63, 2 ** 64, 10 ** 30, -10 ** 30,
                                    2 ** 1023, 2 ** 1024, -2 ** 1024)],
    "pc": [("new", "char[]", b"hello"), ("new", "char[]", b"Wabc"), ("new", "char[8]", b""),
           ("py", b"abc"), ("py", b"a\x00b"), ("py", b"\xff\x80"), ("py", b"Xabc" * 200),
           ("py", [b"a", b"b", b"\x00"]), ("py", (b"W", b"x", b"\x00")), ("py", []), ("py", ()),
           ("py", [b"a", 5, b"\x00"]), ("py", [b"ab", b"\x00"]),
           ("py", [b"x"] * 511 + [b"\x00"]), ("py", [b"x"] * 512 + [b"\x00"]),
           ("py", [b"y"] * 639 + [b"\x00"]), ("py", [b"y"] * 640 + [b"\x00"]),
           ("void", "char[]", b"Wvoid"), ("elem", "char[]", b"xxWyz", 2), ("frombuf", "char[]", b"Wfrombuf\x00"),
           ("new", "unsigned char[]", b"Wuc"), ("new", "signed char[4]", [87, 98, 99, 0]),
           ("new", "short[2]", [1, 0]), ("new", "char *", b"\x00")],
    "pi": [("new", "int *", 0), ("new", "int *", 5), ("new", "int[]", [103, 7, -9, 2 ** 31 - 1]), ("new", "int[1]", [5]),
           ("py", [103, 1, 2, 3]), ("py", (102, -1, 5)), ("py", [100]), ("py", [0]), ("py", [-2 ** 31]),
           ("py", [2 ** 31]), ("py", [-2 ** 31 - 1]), ("py", [1.5]), ("py", [None]), ("py", [b"a"]),
           ("py", [101] * 128), ("py", [108] + list(range(128))), ("py", [108] + list(range(159))),
           ("py", [108] + list(range(160))),
           ("void", "int[]", [102, 4, 5]), ("elem", "int[]", [0, 0, 102, 8, 9], 2),
           ("frombuf", "int[]", struct.pack("<4i", 103, 1, 2, 3)),
           ("new", "unsigned int[]", [101, 3]), ("new", "long[1]", [0]), ("new", "char[8]", b"")],
    "ps": [("new", "struct s3[2]", [[1, 0.5], [2, 1.5]]), ("py", [(1, 2.0)]), ("py", ((7, -1.0), (8, 0.0))),
           ("py", [{"a": 5, "b": -1.0}]), ("py", [(1,)]), ("py", [{}]), ("py", [(1, 2.0, 3)]),
           ("py", [("x", 1.0)]), ("py", [(2 ** 63, 1.0)]), ("py", [{"z": 1}]),
           ("py", [(i, float(i)) for i in range(32)]), ("py", [(i, float(i)) for i in range(33)]),
           ("py", [(i, float(i)) for i in range(40)]), ("py", [(i, float(i)) for i in range(41)]),
           ("void", "struct s3 *", [9, 9.5]), ("elem", "struct s3[]", [[1, 1.0], [2, 2.0], [3, 3.0]], 1),
           ("new", "struct s1 *", [1]), ("new", "long[2]", [1, 2])],
    "puc": [("py", b"abc"), ("py", b"XWabc"), ("py", b""), ("new", "unsigned char[]", b"Wq\x00"), ("py", [87, 2, 0]),
            ("py", [256]), ("py", [-1]), ("py", [b"a"]), ("new", "char[]", b"Whi"), ("new", "signed char[2]", [5, 0]),
            ("void", "unsigned char[]", b"Wv\x00"), ("new", "unsigned short[1]", [5])],
    "pb": [("py", b"\x00\x01"), ("py", b"\x01"), ("py", b"\x02"), ("py", [True, False]), ("py", [0]), ("py", [2]),
           ("py", [-1]), ("new", "_Bool[2]", [1, 0]), ("new", "_Bool *", True), ("new", "unsigned char[1]", [1]),
           ("void", "_Bool[1]", [1])],
    "pv": [("py", b"abc"), ("new", "char[]", b"x"), ("new", "int[]", [7]), ("new", "struct s4 *", list(S4_FULL)),
           ("py", [b"a"]), ("py", ()), ("frombuf", "char[]", b"Q")],
    "pw": [("py", "hello"), ("py", "Wab"), ("py", "W\U00012345x"), ("new", "wchar_t[]", "Whi"), ("new", "wchar_t[4]", "a"),
           ("py", ["a", "b", "\x00"]), ("py", ("W", "c", "\x00")), ("py", ["a", 5]), ("py", [b"a"]),
           ("void", "wchar_t[]", "Wv"), ("new", "int[2]", [87, 0]), ("new", "char32_t[]", "Wx"),
           ("py", "x" * 127), ("py", "x" * 128), ("py", "y" * 159), ("py", "y" * 160)],
    "fp": [("libfn", "c13_g1"), ("libfn", "c13_g2"), ("callback", "int(*)(int)"),
           ("callback", "long long(*)(struct s3, double)"), ("cast", "int(*)(int)", 0), ("cast", "void *", 0),
           ("cast", "long long(*)(struct s3, double)", 0), ("py", 5), ("pyfn",), ("new", "int[2]", [1, 5])],
    "struct s1": [("deref", "struct s1 *", [200]), ("py", (200,)), ("py", {"a": 0}), ("py", [255]), ("py", (256,)),
                  ("py", (-1,)), ("py", ("x",)), ("py", (1, 2)), ("py", ()), ("py", {}), ("py", {"b": 1})],
    "struct s2": [("deref", "struct s2 *", [1.5, -2.5]), ("py", (1.5, -2.5)), ("py", {"x": 1e39, "y": 0.0}),
                  ("py", [0.1, float("nan")]), ("py", (1.5,)), ("py", {}), ("py", {"y": 2.0}), ("py", {"z": 1}),
                  ("py", (1.0, 2.0, 3.0)), ("py", ("x", 1.0)), ("py", (None, None))],
    "struct s3": [("deref", "struct s3 *", [5, 2.5]), ("py", (5, 2.5)), ("py", {"a": -1, "b": 1e300}),
                  ("py", [2 ** 63 - 1, -0.0]), ("py", (-2 ** 63, 1.0)), ("py", (5,)), ("py", {}), ("py", {"b": 1.0}),
                  ("py", (2 ** 63, 0.0)), ("py", (1.5, 1.0)), ("py", (1, 2.0, 3)), ("py", {"c": 1}),
                  ("py", (1, "x"))],
    "struct s4": [("deref", "struct s4 *", list(S4_FULL)), ("py", S4_FULL),
                  ("py", {"a": 2 ** 31 - 1, "c": [b"a", b"b", b"c", b"d", b"e"], "d": -0.0, "e": 2 ** 63 - 1,
                          "s": -2 ** 15, "n": {"a": 255}}),
                  ("py", (1, b"ab", 2.5, -3, 4, (5,))), ("py", (1,)), ("py", {}), ("py", (1, b"abcde", 2.5, -3, 4, ())),
                  ("py", (1, b"abcde", 2.5, -3, 4)), ("py", (1, b"abcdef", 2.5, -3, 4, (5,))),
                  ("py", (2 ** 31, b"abcde", 2.5, -3, 4, (5,))), ("py", (1, b"abcde", 2.5, -3, 2 ** 15, (5,))),
                  ("py", (1, b"abcde", 2.5, -3, 4, (256,))), ("py", (1, b"abcde", 2.5, -3, 4, (5,), 6)),
                  ("py", (1, 5, 2.5, -3, 4, (5,)))],
}

FIELDS = {
    "struct s1": [("a", None)],
    "struct s2": [("x", None), ("y", None)],
    "struct s3": [("a", None), ("b", None)],
    "struct s4": [("a", None), ("c", 5), ("d", None), ("e", None), ("s", None), ("n", "struct s1")],
}


def is_partial(t, v):
    """Does the initialiser v leave some byte of a `t` passed by value undetermined?"""
    fl = FIELDS[t]
    if isinstance(v, (list, tuple)):
        if len(v) < len(fl):
            return True
        items = list(zip(fl, v))
    elif isinstance(v, dict):
        if any(n not in v for n, _sub in fl):
            return True
        items = [((n, sub), v[n]) for n, sub in fl]
    else:
        return False
    for (_n, sub), x in items:
        if isinstance(sub, int):
            if isinstance(x, (bytes, list, tuple)) and len(x) < sub:
                return True
        elif sub is not None and isinstance(x, (list, tuple, dict)) and is_partial(sub, x):
            return True
    return False


def alphabet(t, small=False):
    """[(class label, spec)] for one argument of type t."""
    k = kind_of(t)
    out = []
    if k in ("int", "bool"):
        lo, hi = facts()[t]
        vals = cref.boundary_values(lo, hi)
        if small:
            vals = sorted({lo - 1, lo, -1, 0, 1, hi, hi + 1, 2 ** 63, 2 ** 64, -2 ** 63 - 1} & set(vals))
        for v in vals:
            out.append(("int:below" if v < lo else "int:above" if v > hi else "int:in", ("py", v)))
        if k == "int" and not small:
            # cdata of the same type at its bounds (converted by a different branch than Python ints)
            for v in sorted({lo, -1 if lo < 0 else 1, 0, hi}):
                out.append(("cdata:same", ("cast", t, v)))
    else:
        key = t if k == "struct" else k
        sp = SPECIFIC[key]
        if small:
            sp = sp[:6]
        for s in sp:
            out.append((label_of(s, t), s))
    pl = POOL if not small else [POOL[i] for i in (0, 1, 7, 16, 23, 31, 35)]
    seen = {repr(s) for _, s in out}
    for s in pl:
        if repr(s) not in seen:
            out.append((label_of(s, t), s))
    return out


def label_of(spec, t):
    k = spec[0]
    if k == "py":
        v = spec[1]
        if t in FIELDS and is_partial(t, v):
            return "init:partial"
        if kind_of(t) == "struct" and isinstance(v, (tuple, list, dict)):
            return "init:" + type(v).__name__
        if isinstance(v, (list, tuple)) and kind_of(t) in PTR_KINDS:
            return "seq:%s:%s" % (type(v).__name__, "long" if len(v) > 100 else "short")
        return "py:" + type(v).__name__
    if k == "cast":
        return "cdata:" + spec[1]
    if k == "null":
        return "cdata:NULL"
    if k in ("new", "void", "elem", "frombuf", "deref", "gc", "callback"):
        return "%s:%s" % (k, spec[1])
    if k == "obj":
        return "obj:__%s__" % spec[1]
    if k == "libfn":
        return "libfn:" + spec[1]
    return k


def _no_destructor(p):
    pass


def _cb_int(x):
    return (x * 2 + 1) & 0x7fffffff


def _cb_s3(s, d):
    return int(s.a) * 3 + int(d)


class _WithInt(object):
    def __init__(self, v):
        self.v = v

    def __int__(self):
        return self.v


class _WithIndex(object):
    def __init__(self, v):
        self.v = v

    def __index__(self):
        return self.v


class _WithFloat(object):
    def __init__(self, v):
        self.v = v

    def __float__(self):
        return self.v


def _a_python_function(x):
    return x


def realize(spec, ffi, keep, getfn=None):
    k = spec[0]
    if k == "libfn":
        return getfn(spec[1])
    if k == "pyfn":
        return _a_python_function
    if k == "py":
        return spec[1]
    if k == "cast":
        return ffi.cast(spec[1], spec[2])
    if k == "null":
        return ffi.NULL
    if k == "new":
        o = ffi.new(spec[1], spec[2])
        keep.append((o, None))
        return o
    if k == "void":
        o = ffi.new(spec[1], spec[2])
        keep.append((o, None))
        return ffi.cast("void *", o)
    if k == "elem":
        o = ffi.new(spec[1], spec[2])
        keep.append((o, None))
        return o + spec[3]
    if k == "deref":
        o = ffi.new(spec[1], spec[2])
        keep.append((o, None))
        return o[0]
    if k == "frombuf":
        ba = bytearray(spec[2])
        o = ffi.from_buffer(spec[1], ba)
        keep.append((o, ba))
        return o
    if k == "gc":
        o = ffi.gc(ffi.new(spec[1], spec[2]), _no_destructor)
        keep.append((o, None))
        return o
    if k == "handle":
        o = ffi.new_handle(_a_python_function)
        keep.append((o, b""))            # kept alive, no memory image to compare
        return o
    if k == "callback":
        o = ffi.callback(spec[1], _cb_int if spec[1].startswith("int") else _cb_s3)
        keep.append((o, b""))
        return o
    if k == "obj":
        return {"int": _WithInt, "index": _WithIndex, "float": _WithFloat}[spec[1]](spec[2])
    raise InfraError("bad spec %r" % (spec,))


# ---- JSON-safe encoding of specs (tuples, bytes, non-finite floats survive) -------------

def enc(o):
    if isinstance(o, bool) or o is None or isinstance(o, (int, str)):
        return o
    if isinstance(o, float):
        return {"f": o.hex()}
    if isinstance(o, bytes):
        return {"b": o.hex()}
    if isinstance(o, tuple):
        return {"t": [enc(x) for x in o]}
    if isinstance(o, list):
        return {"l": [enc(x) for x in o]}
    if isinstance(o, dict):
        return {"d": [[enc(k), enc(v)] for k, v in o.items()]}
    raise InfraError("cannot encode %r" % (o,))


def dec(o):
    if isinstance(o, dict):
        if "f" in o:
            return float.fromhex(o["f"])
        if "b" in o:
            return bytes.fromhex(o["b"])
        if "t" in o:
            return tuple(dec(x) for x in o["t"])
        if "l" in o:
            return [dec(x) for x in o["l"]]
        if "d" in o:
            return {dec(k): dec(v) for k, v in o["d"]}
    return o


# ------------------------------------------------------------------------------------
# observation

def _fbits(v):
    return struct.pack("<d", v).hex()


def cd2py(ffi, c):
    """A by-value struct / array cdata as nested Python data (padding never looked at)."""
    if isinstance(c, float):
        return ("f", _fbits(c))
    if isinstance(c, (int, bytes, str, bool)) or c is None:
        return (type(c).__name__, c)
    t = ffi.typeof(c)
    if t.kind == "struct":
        return ("S", t.cname, tuple((n, cd2py(ffi, getattr(c, n))) for n, _f in t.fields))
    if t.kind == "array":
        return ("A", t.cname, tuple(cd2py(ffi, c[i]) for i in range(len(c))))
    if t.kind == "pointer":
        return ("P", t.cname, int(ffi.cast("uintptr_t", c)))
    return ("?", t.cname, repr(c))


class Lib(object):
    """One compiled module and the four ways to reach its functions."""

    def __init__(self, tag, fns):
        import cffi
        self.fns = fns
        decls = [fn_decl(f) for f in fns]
        if any(f[0] == "v" for f in fns):
            decls = [x for x in decls if "c13_v" not in x] + ["int c13_v(int, ...);", "double c13_vd(double, ...);"]
        cdef = STRUCT_DECLS + "\n".join(decls) + "\n"
        src = prelude_text() + "".join(fn_body(f) for f in fns)
        d = os.path.join(build.scratch_shared(), "c13_%s" % tag)
        os.makedirs(d, exist_ok=True)
        name = "c13m_%s" % tag
        ffi = cffi.FFI()
        ffi.cdef(cdef)
        ffi.set_source(name, src, extra_compile_args=["-w", "-g0"])
        try:
            so = ffi.compile(tmpdir=d)
        except Exception as e:
            raise InfraError("test library %s did not compile: %s: %s" % (name, type(e).__name__, e))
        self.so = so
        api = _import(name, so)
        inl = cffi.FFI()
        inl.cdef(cdef)
        inl_lib = inl.dlopen(so)
        ool_ffi = cffi.FFI()
        ool_ffi.cdef(cdef)
        ool_name = "c13o_%s" % tag
        ool_ffi.set_source(ool_name, None)
        py = os.path.join(d, ool_name + ".py")
        with contextlib.redirect_stdout(io.StringIO()):
            ool_ffi.emit_python_code(py)
        ool = _import(ool_name, py)
        ool_lib = ool.ffi.dlopen(so)
        self.keep = (api, inl, inl_lib, ool, ool_lib)
        self.paths = [
            ("api", api.ffi, lambda n: getattr(api.lib, n)),
            ("addressof", api.ffi, lambda n: api.ffi.addressof(api.lib, n)),
            ("inline-abi", inl, lambda n: getattr(inl_lib, n)),
            ("ool-abi", ool.ffi, lambda n: getattr(ool_lib, n)),
        ]
        cd = ctypes.CDLL(so)
        self.ncalls = ctypes.c_int.in_dll(cd, "c13_ncalls")
        self.errno_in = ctypes.c_int.in_dll(cd, "c13_errno_in")
        self.static = ctypes.addressof(ctypes.c_char.in_dll(cd, "c13_static"))
        self.g1 = ctypes.cast(cd.c13_g1, ctypes.c_void_p).value
        self._cache = {}

    def func(self, pi, name):
        key = (pi, name)
        f = self._cache.get(key)
        if f is None:
            f = self._cache[key] = self.paths[pi][2](name)
        return f

    def norm(self, ffi, res, keep):
        if res is None:
            return ("none",)
        if isinstance(res, float):
            return ("float", _fbits(res))
        if isinstance(res, (bool, int, bytes)):
            return (type(res).__name__, res)
        if isinstance(res, str):
            return ("str", tuple(ord(ch) for ch in res))
        t = ffi.typeof(res)
        if t.kind == "pointer":
            addr = int(ffi.cast("uintptr_t", res))
            if addr == 0:
                return ("ptr", t.cname, "NULL")
            if self.static <= addr < self.static + 256:
                return ("ptr", t.cname, "static+%d" % (addr - self.static))
            for i, (o, _ba) in enumerate(keep):
                base = int(ffi.cast("uintptr_t", o))
                try:
                    size = len(ffi.buffer(o))
                except TypeError:
                    size = 0                     # handle / callback: only the address itself is the caller's
                if base <= addr <= base + size:
                    return ("ptr", t.cname, "arg%d+%d" % (i, addr - base))
            return ("ptr", t.cname, "not-caller-owned")      # a temporary built by the path itself
        if t.kind in ("struct", "array"):
            return cd2py(ffi, res)
        if t.kind == "function":
            addr = int(ffi.cast("uintptr_t", res))
            return ("fnptr", t.cname, "NULL" if addr == 0 else "c13_g1" if addr == self.g1 else "other")
        return ("cdata", t.cname, repr(res))

    def observe(self, pi, name, specs, kwargs=False):
        pname, ffi, _g = self.paths[pi]
        keep = []
        try:
            f = self.func(pi, name)
            args = [realize(s, ffi, keep, lambda n: self.func(pi, n)) for s in specs]
        except Exception as e:
            return (("exc-at-lookup", type(e).__name__), (), None, 0, None)
        if name in ("c13_v", "c13_vd"):
            # Leave path-specific bit patterns in libffi's register-image area first, so that a
            # variadic argument passed without its default promotion cannot agree by accident.
            try:
                self.func(pi, "c13_v")(0x44444444, *[ffi.cast("double", x) for x in PRIMER[pi]])
            except Exception:
                pass                 # a path that cannot even do this shows up in the real call below
        n0 = self.ncalls.value
        ffi.errno = 77
        try:
            if kwargs:
                res = f(*args[:-1], x=args[-1]) if args else f(x=1)
            else:
                res = f(*args)
        except Exception as e:
            out = ("exc", type(e).__name__)
        else:
            out = self.norm(ffi, res, keep)
        err = ffi.errno
        called = self.ncalls.value - n0
        ein = self.errno_in.value if called else None
        mem = tuple(bytes(ba) if ba is not None else bytes(ffi.buffer(o)) for o, ba in keep)
        return (out, mem, err, called, ein)


PRIMER = [[struct.unpack("<d", struct.pack("<Q", ((0x40100000 + 0x1111 * (pi + 1) + j) << 32) | 0x12345678))[0]
           for j in range(8)] for pi in range(4)]


def _import(name, path):
    spec = importlib.util.spec_from_file_location(name, path)
    m = importlib.util.module_from_spec(spec)
    spec.loader.exec_module(m)
    return m


WHAT = ("outcome", "memory", "errno", "reached-C", "errno-seen-by-C")


def compare(obs):
    """None if the four observations coincide, else (what differs, partition string)."""
    for idx, what in enumerate(WHAT):
        vals = [o[idx] for o in obs]
        if any(v != vals[0] for v in vals[1:]):
            groups = []
            for i, v in enumerate(vals):
                for g in groups:
                    if vals[g[0]] == v:
                        g.append(i)
                        break
                else:
                    groups.append([i])
            return what, "|".join("".join(str(i + 1) for i in g) for g in groups)
    return None


def outcome_class(obs):
    o = obs[0][0]
    if o[0] in ("exc", "exc-at-lookup"):
        return "%s:%s" % o
    return "value"


# ------------------------------------------------------------------------------------
# cases of one function

V_EXTRAS = [   # (format nibble the C side uses, spec)
    (1, ("cast", "char", b"A")), (1, ("cast", "signed char", -128)), (1, ("cast", "unsigned char", 255)),
    (1, ("cast", "short", -32768)), (1, ("cast", "unsigned short", 65535)), (1, ("cast", "int", -2 ** 31)),
    (1, ("cast", "int", 2 ** 31 - 1)), (2, ("cast", "unsigned int", 2 ** 32 - 1)), (3, ("cast", "long", -2 ** 63)),
    (11, ("cast", "unsigned long", 2 ** 64 - 1)), (3, ("cast", "long long", 2 ** 63 - 1)),
    (11, ("cast", "unsigned long long", 2 ** 63)), (1, ("cast", "_Bool", 1)), (12, ("cast", "wchar_t", "\U0010ffff")),
    (3, ("cast", "ssize_t", -1)), (11, ("cast", "size_t", 5)), (1, ("cast", "int8_t", -1)), (1, ("cast", "uint16_t", 40000)),
    (4, ("cast", "double", 1.5)), (4, ("cast", "double", float("-inf"))), (4, ("cast", "double", 5e-324)),
    (4, ("cast", "float", 2.5)), (4, ("cast", "float", -0.0)),
    (6, ("null",)), (6, ("cast", "void *", 4096)), (6, ("cast", "void(*)(int)", 4096)), (6, ("new", "char[]", b"str")),
    (5, ("new", "int *", 41)), (5, ("new", "int[3]", [1, 2, 3])), (5, ("elem", "int[]", [0, 9, 0], 1)),
    (6, ("new", "struct s3 *", [1, 2.0])),
    (7, ("deref", "struct s1 *", [200])), (8, ("deref", "struct s2 *", [1.5, -2.5])),
    (9, ("deref", "struct s3 *", [5, 2.5])), (10, ("deref", "struct s4 *", list(S4_FULL))),
    (1, ("py", 5)), (4, ("py", 1.5)), (6, ("py", None)), (6, ("py", "x")), (6, ("py", b"x")), (1, ("py", [1])),
    (1, ("py", True)),
]
V_SMALL = [0, 3, 5, 7, 10, 11, 13, 18, 21, 23, 27, 28, 31, 33, 34, 35, 36]


MULTI = {
    "signed char": [("py", 0), ("py", -128), ("py", 127), ("py", 128), ("py", None), ("py", -1), ("py", -129)],
    "unsigned short": [("py", 65535), ("py", 0), ("py", 65536), ("py", -1), ("py", 1), ("py", "x"), ("py", 2 ** 64)],
    "int *": [("new", "int[]", [102, 5, 6]), ("null",), ("py", [101, 4]), ("py", 0), ("new", "int *", 7), ("py", [1.5]),
              ("void", "int[]", [101, -1])],
    "struct s3": [("deref", "struct s3 *", [5, 2.5]), ("py", (6, -0.5)), ("py", None), ("py", {"a": 1, "b": 2.0}),
                  ("py", (2 ** 63, 0.0)), ("deref", "struct s1 *", [1]), ("py", [1, 1.0])],
    "double": [("py", 1.5), ("py", -0.0), ("py", "x"), ("py", 10 ** 30), ("py", float("inf")), ("py", None),
               ("py", 2 ** 1024)],
    "long long": [("py", -2 ** 63), ("py", 2 ** 63 - 1), ("py", 2 ** 63), ("py", 0), ("py", 1.5), ("py", -2 ** 63 - 1),
                  ("py", True)],
    "float": [("py", 2.5), ("py", 1e39), ("py", None), ("py", 1), ("py", -0.0), ("py", "x"), ("py", 1e-46)],
    "char *": [("py", b"abc"), ("new", "char[]", b"Wq"), ("null",), ("py", "x"), ("py", [b"a", b"\x00"]), ("py", 5),
               ("void", "char[]", b"Wv")],
    "struct s1": [("py", (200,)), ("deref", "struct s1 *", [9]), ("py", (256,)), ("py", None), ("py", {"a": 1}),
                  ("py", ("x",)), ("py", [0])],
    "unsigned long": [("py", 2 ** 64 - 1), ("py", 0), ("py", -1), ("py", 2 ** 64), ("py", 1), ("py", None), ("py", 1.5)],
    "_Bool": [("py", True), ("py", 0), ("py", 2), ("py", 1), ("py", None), ("py", -1), ("py", False)],
    "wchar_t": [("py", "a"), ("py", "\U0010ffff"), ("py", "ab"), ("py", 65), ("py", "\x00"), ("py", None), ("py", "\xff")],
    "int": [("py", 0), ("py", -2 ** 31), ("py", 2 ** 31), ("py", 2 ** 31 - 1), ("py", None), ("py", -1), ("py", 1.5)],
}


def multi_n(fn, tier):
    if len(fn[3]) > 6:
        return 3 if tier == "quick" else 4
    return 4 if tier == "quick" else 7


def cases_of(fn, tier):
    """[(specs tuple, kwargs flag)] in canonical order."""
    fam, name, R, A = fn
    quick = tier == "quick"
    out = []
    if fam == "f":
        per = [[sp for _l, sp in alphabet(t, small=(len(A) > 1 and kind_of(t) != "fp"))] for t in A]
        for tup in itertools.product(*per):
            out.append((tuple(tup), False))
        out.append(((), False))
        out.append((tuple(p[0] for p in per), True))
    elif fam == "n":
        out.append(((), False))
        out.append(((("py", 1),), False))
        out.append(((("py", None),), False))
        out.append(((("py", 1), ("py", 2)), False))
    elif fam == "u":
        al = alphabet(A[0])
        for _lab, s in al:
            out.append(((s,), False))
        first = al[0][1]
        out.append(((), False))
        out.append(((first, first), False))
        out.append(((first,), True))
    elif fam == "b":
        a0 = alphabet(A[0], small=quick)
        a1 = alphabet(A[1], small=quick)
        for (_l0, s0), (_l1, s1) in itertools.product(a0, a1):
            out.append(((s0, s1), False))
        out.append(((a0[0][1],), False))
        out.append(((a0[0][1], a1[0][1], a1[0][1]), False))
        out.append(((a0[0][1], a1[0][1]), True))
    elif fam == "m":
        n = multi_n(fn, tier)
        per = [MULTI[t][:n] for t in A]
        for tup in itertools.product(*per):
            out.append((tuple(tup), False))
        out.append((tuple(p[0] for p in per)[:-1], False))
        out.append((tuple(p[0] for p in per), True))
    elif fam == "v":
        ex = V_EXTRAS
        first_ok = [("py", 0)] if R == "int" else [("py", 0.0)]

        def call(extras):
            fmt = 0
            for i, (nib, _s) in enumerate(extras):
                fmt |= nib << (4 * i)
            head = ("py", fmt) if R == "int" else ("py", float(fmt))
            return ((head,) + tuple(s for _n, s in extras), False)
        out.append(call(()))
        for e in ex:
            out.append(call((e,)))
        for e1, e2 in itertools.product(ex, repeat=2):
            out.append(call((e1, e2)))
        tri = [ex[i] for i in V_SMALL] if quick else ex[:36]
        if quick:
            tri = tri[::2] + [ex[35]]
        for t3 in itertools.product(tri, repeat=3):
            out.append(call(t3))
        # wrong first (declared) argument and missing arguments
        wrong_first = [("py", None), ("py", "x"), ("cast", "int", 1), ("py", [1]), ("cast", "double", 1.0)]
        wrong_first += [("py", 2 ** 40), ("py", 1.5)] if R == "int" else [("py", 1), ("py", True)]
        for s in wrong_first:
            out.append(((s, ex[5][1]), False))
        out.append(((), False))
    return out


def labels_of(fn, specs):
    fam, name, R, A = fn
    labs = []
    for i, s in enumerate(specs):
        t = A[i] if i < len(A) else ("..." if fam == "v" else A[-1] if A else "void")
        labs.append(label_of(s, t))
    return labs


def run_function(L, fn, tier, res):
    fam, name, R, A = fn
    for specs, kw in cases_of(fn, tier):
        obs = [L.observe(pi, name, specs, kw) for pi in range(4)]
        res["cases"] += 1
        reached = any(o[3] for o in obs)
        if reached:
            res["nontrivial"] += 1
        cls = outcome_class(obs)
        labs = labels_of(fn, specs)
        res["classes"]["outcome/" + cls] += 1
        res["classes"]["family/" + fam] += 1
        if len(specs) == len(A) or fam == "v":
            for lab in set(labs):
                res["classes"]["arg/" + lab.split(":")[0]] += 1
        else:
            res["classes"]["arg/wrong-arity"] += 1
        if kw:
            res["classes"]["arg/keyword"] += 1
        if obs[0][0][0] == "ptr":
            res["classes"]["result/ptr:" + obs[0][0][2].split("+")[0]] += 1
        if any(o[1] for o in obs):
            res["classes"]["memory-compared"] += 1
        d = compare(obs)
        if d is not None:
            res["nbad"] += 1
            # attribute once per (function, what differs, argument classes); later cases reuse it
            ck = (name, d[0], kw, tuple(labs))
            if ck not in res["blame"]:
                res["blame"][ck] = blame(L, fn, specs, kw) if len(res["blame"]) < 20000 else None
            sg = sig_of(fn, d, obs, labs, res["blame"][ck])
            ent = res["bad"].setdefault(repr(sorted(sg.items())), [sg, 0, []])
            ent[1] += 1
            if len(ent[2]) < 2:
                ent[2].append(detail_of(fn, specs, kw, d, obs, labs))
        if res["cases"] % 997 == 1:
            res["samples"].append({"fn": fn_decl(fn), "args": repr(specs)[:200], "outcome": repr(obs[0][0])[:120],
                                   "errno": obs[0][2]})


def work(item):
    tag, fns, tier = item
    t0 = time.time()
    L = Lib("%d_%s" % (os.getpid(), tag), fns)
    res = {"cases": 0, "nontrivial": 0, "classes": collections.Counter(), "bad": {}, "nbad": 0, "samples": [],
           "nfn": len(fns), "blame": {}}
    t1 = time.time()
    for fn in fns:
        run_function(L, fn, tier, res)
    res["t_build"] = t1 - t0
    res["t_run"] = time.time() - t1
    del res["blame"]
    shutil.rmtree(os.path.dirname(L.so), ignore_errors=True)
    return res


# ------------------------------------------------------------------------------------

def functions(tier):
    fns = []
    n = itertools.count()

    def add(fam, R, A):
        fns.append((fam, "f%d" % next(n), R, tuple(A)))
    rset = CORE + ["void"]
    for R in rset:
        add("n", R, [])            # nullary: METH_NOARGS wrapper in API mode, a cif without arguments elsewhere
    for A in CORE:
        for R in rset:
            add("u", R, [A])
    for X in EXT:
        add("u", X, [X])
        add("u", "long long", [X])
        add("u", X, ["long long"])
    rs = BIN8 if tier != "quick" else None
    for i, A in enumerate(BIN8):
        for j, B in enumerate(BIN8):
            if rs is None:
                add("b", BIN8[(i + 3 * j) % 8], [A, B])
            else:
                for R in rs:
                    add("b", R, [A, B])
    add("m", "double", ["signed char", "unsigned short", "int *", "struct s3", "double", "long long"])
    add("m", "struct s4", ["float", "char *", "struct s1", "unsigned long", "_Bool", "wchar_t"])
    add("m", "long long", ["int"] * 8)
    fns.append(("f", "c13_g1", "int", ("int",)))
    fns.append(("f", "c13_g2", "long long", ("struct s3", "double")))
    fns.append(("f", "c13_fp1", "int", ("int(*)(int)", "int")))
    fns.append(("f", "c13_fp2", "long long", ("long long(*)(struct s3, double)", "int")))
    fns.append(("f", "c13_retfp", "int(*)(int)", ("int",)))
    fns.append(("v", "c13_v", "int", ("int",)))
    fns.append(("v", "c13_vd", "double", ("double",)))
    return fns


def blocks_of(fns, tier):
    """Group functions into work items (one compiled module each), balanced by case count."""
    cost = {}
    for f in fns:
        fam = f[0]
        if fam == "u":
            c = 130
        elif fam == "n":
            c = 4
        elif fam == "f":
            c = 1000
        elif fam == "b":
            c = len(alphabet(f[3][0], tier == "quick")) * len(alphabet(f[3][1], tier == "quick"))
        elif fam == "m":
            c = multi_n(f, tier) ** len(f[3])
        else:
            c = 8000 if tier == "quick" else 50000
        cost[f] = c
    maxfn, maxcost = (72 if tier == "quick" else 48), (40000 if tier == "quick" else 120000)
    out, cur, curc = [], [], 0
    for f in fns:
        if cur and (len(cur) >= maxfn or curc + cost[f] > maxcost):
            out.append(cur)
            cur, curc = [], 0
        cur.append(f)
        curc += cost[f]
    if cur:
        out.append(cur)
    out.sort(key=lambda b: -sum(cost[f] for f in b))
    return out


BENIGN = {"puc": ("py", b"abc"), "pb": ("py", b"\x01"), "pv": ("py", b"abc"), "pw": ("py", "abc"),
          "fp": ("libfn", "c13_g1"), "char": ("py", b"A"), "wchar": ("py", "a"), "float": ("py", 1.5), "pc": ("py", b"abc"),
          "pi": ("new", "int[]", [103, 7, -9, 1]), "ps": ("new", "struct s3 *", [3, 4.5]),
          "struct s1": ("deref", "struct s1 *", [200]), "struct s2": ("deref", "struct s2 *", [1.5, -2.5]),
          "struct s3": ("deref", "struct s3 *", [5, 2.5]), "struct s4": ("deref", "struct s4 *", list(S4_FULL))}
ORDINARY = {"int:in", "py:float", "py:bytes", "py:str", "py:bool"}


def benign(t):
    k = kind_of(t)
    if k in ("int", "bool"):
        return ("py", 1)
    return BENIGN[t if k == "struct" else k]


def blame(L, fn, specs, kw):
    """Greedy minimisation: replace one argument after the other by a plain in-range value
    (variadic: drop one extra after the other) as long as the four paths still disagree.
    Returns the labels/types of the arguments that could not be simplified away."""
    fam, name, R, A = fn
    n = len(specs)
    if kw or n == 0 or (fam != "v" and n != len(A)):
        return []

    def differ(sp):
        return compare([L.observe(pi, name, sp, False) for pi in range(4)]) is not None
    if fam == "v":
        head = specs[0]
        if head[0] != "py" or isinstance(head[1], bool) or not isinstance(head[1], (int, float)):
            return [(A[0], label_of(head, A[0]))]
        fmt = int(head[1])
        cur = [((fmt >> (4 * i)) & 15, specs[i + 1]) for i in range(n - 1)]

        def build_call(extras):
            f2 = 0
            for k, (nib, _s) in enumerate(extras):
                f2 |= nib << (4 * k)
            return (("py", type(head[1])(f2)),) + tuple(x for _n, x in extras)
        i = 0
        while i < len(cur):
            cand = cur[:i] + cur[i + 1:]
            if differ(build_call(cand)):
                cur = cand
            else:
                i += 1
        if len(cur) > 1:        # prefer extras that are a sufficient cause on their own
            alone = [e for e in cur if differ(build_call([e]))]
            cur = alone or cur
        return [("...", label_of(sp, "...")) for _nib, sp in cur] or [(A[0], label_of(head, A[0]))]
    cur = list(specs)
    kept = []
    for i in range(n):
        b = benign(A[i])
        if repr(cur[i]) == repr(b):
            continue
        cand = cur[:i] + [b] + cur[i + 1:]
        if differ(tuple(cand)):
            cur = cand
        else:
            kept.append(i)
    if not kept:
        kept = list(range(n))
    if len(kept) > 1:           # prefer arguments that are a sufficient cause on their own
        base = [benign(t) for t in A]
        alone = [i for i in kept if differ(tuple(base[:i] + [cur[i]] + base[i + 1:]))]
        kept = alone or kept
    return [(A[i], label_of(cur[i], A[i])) for i in kept]


FAMILY = {"u": "unary", "b": "binary", "m": "multi", "v": "variadic", "f": "function-pointer"}


def sig_of(fn, d, obs, labs, resp):
    fam, name, R, A = fn
    site = FAMILY[fam]
    if resp is None:
        return {"kind": d[0], "site": site, "argtype": "-",
                "input": "unattributed (more than 20000 distinct mismatch classes in this module)", "ret": "-"}
    resp = sorted(set(resp))
    types = [t for t, _l in resp]
    inp = [l for _t, l in resp] or ["wrong-arity-or-keyword"]
    ret = "-"
    if d[0] == "outcome" and all(o[3] for o in obs) and all(x in ORDINARY for x in inp):
        ret = R
    return {"kind": d[0], "site": site, "argtype": ",".join(types), "input": ",".join(inp), "ret": ret}


def detail_of(fn, specs, kw, d, obs, labs):
    return {"fn": list(fn[:3]) + [list(fn[3])], "decl": fn_decl(fn), "args": enc(list(specs)), "kwargs": kw,
            "differs": d[0], "split": d[1], "labels": labs,
            "observed": {n: repr(o)[:400] for n, o in zip(("api", "addressof", "inline-abi", "ool-abi"), obs)}}


def run(ctx):
    facts()
    import cffi
    from cffi import _shimmed_dist_utils, recompiler      # noqa: F401  (imported once, inherited by the workers)
    cffi.FFI().cdef(STRUCT_DECLS + "int warm_up_the_parser_tables(struct s4 *, wchar_t, ...);")
    shared = build.scratch_shared()
    try:
        fns = functions(ctx.tier)
        blocks = blocks_of(fns, ctx.tier)
        ctx.log("%d functions in %d modules" % (len(fns), len(blocks)))
        items = [[("b%d" % i, b, ctx.tier)] for i, b in enumerate(blocks)]
        tot = collections.Counter()
        allsigs = collections.Counter()
        for item, r in pool.pmap(work, items, item_timeout=900):
            if isinstance(r, pool.WorkerError):
                raise InfraError(r.tb)
            if isinstance(r, pool.Crash):
                ctx.violation({"kind": "crash", "fn": item[1][0][0]},
                              {"block": [fn_decl(f) for f in item[1]], "how": r.describe()})
                continue
            tot["cases"] += r["cases"]
            tot["t_build"] += r["t_build"]
            tot["t_run"] += r["t_run"]
            tot["nontrivial"] += r["nontrivial"]
            tot["nbad"] += r["nbad"]
            tot["nfn"] += r["nfn"]
            for k, v in r["classes"].items():
                ctx.count(k, v)
            for s in r["samples"]:
                ctx.sample(s)
            for _k, (sg, cnt, examples) in sorted(r["bad"].items()):
                for det in examples:
                    ctx.violation(sg, det)
                tot["unlisted"] += cnt - len(examples)
                allsigs[json.dumps(sg, sort_keys=True)] += cnt
        ctx.log("cpu: %.1fs building modules, %.1fs executing cases" % (tot["t_build"], tot["t_run"]))
        # by-value structs of every shape (scalars, 1-D / multi-dimensional arrays, nested structs)
        from . import _c13_structs as SS
        space = SS.struct_space(2 if ctx.quick else 3)
        sblocks = [(i, list(b)) for i, b in enumerate(pool.chunks(space, 40 if ctx.quick else 110))]
        n_structs = n_scalls = 0
        for st in space:
            for c in SS.classify(st):
                ctx.count("struct_shape_" + c)
        for item, r in pool.pmap(SS.work, [[b] for b in sblocks], item_timeout=1800):
            if isinstance(r, pool.WorkerError):
                raise InfraError(r.tb)
            if isinstance(r, pool.Crash):
                ctx.violation({"kind": "crash", "site": "struct-shapes"}, {"struct_block": item[0], "how": r.describe()})
                continue
            ns, nc, bad = r
            n_structs += ns
            n_scalls += nc
            for kind, pname, decl, info in bad:
                exc = info.split(":")[0] if kind.endswith("-raises") else None
                ctx.violation({"kind": kind, "site": "struct-shapes", "path": pname, "union_member": "union un13" in decl,
                               "exc": exc},
                              {"struct_shapes": True, "decl": decl, "path": pname, "info": info})
        tot["cases"] += n_scalls
        cov = {
            "by_value_struct_shapes": n_structs,
            "evaluations": tot["cases"],
            "executions": tot["cases"] * 4,
            "distinct_nontrivial": tot["nontrivial"],
            "functions": tot["nfn"],
            "modules": len(blocks),
            "mismatching_cases": tot["nbad"],
            "mismatching_cases_by_signature": dict(sorted(allsigs.items())),
            "rule": "every argument tuple of every function of the signature alphabet, each executed through the 4 paths; "
                    "unary: whole alphabet of the type (B(T) for integers, type-specific values, the %d-object pool) + "
                    "wrong arity + keyword call; binary: %s; 6/8-argument functions: product of %d values per argument; "
                    "variadic: 0, 1, 2 extras over %d kinds and 3 extras over a subset; non-trivial = the tuple "
                    "reached the C function on at least one path, so the converted result, the caller-owned memory and "
                    "errno (not only the exception type) were compared" % (
                        len(POOL), "product of the reduced alphabets, one result type per pair" if ctx.quick
                        else "product of the full alphabets, all 8 result types", 4 if ctx.quick else 7, len(V_EXTRAS)),
            "exhaustive": True,
            "bound": {"unary": "22 x 23 core types + 3 x %d extended" % len(EXT), "binary_types": 8,
                      "binary_result_types": 1 if ctx.quick else 8, "binary_alphabet": "reduced" if ctx.quick else "full",
                      "multi_values_per_arg": 4 if ctx.quick else 7},
        }
        return ctx.finish(cov, [
            "the four paths are compared with each other; no claim is made that the common behaviour is the right one",
            "pointer results are compared by offset into the caller-owned argument / the library's static area; "
            "pointers into temporaries built by a path itself (list/bytes arguments) only by type and NULL-ness",
            "x86-64 SysV, system libffi"])
    finally:
        shutil.rmtree(shared, ignore_errors=True)


def replay(detail):
    if detail.get("struct_shapes"):
        from . import _c13_structs as SS
        names = detail["decl"].replace(";", " ;").split(";")
        want = [d.strip() for d in detail["decl"].split(";") if d.strip()]
        kinds = []
        for j, dtext in enumerate(want):
            for k in SS.KINDS + [SS.UNION_KIND]:
                if k[1].format(n="f%d" % j).rstrip(";") == dtext:
                    kinds.append(k)
        n, nc, bad = SS.work((0, [tuple(kinds)]))
        for b in bad:
            print("MISMATCH", b)
        return 1 if bad else 0
    facts()
    shared = build.scratch_shared()
    try:
        f = detail["fn"]
        fn = (f[0], f[1], f[2], tuple(f[3]))
        specs = tuple(tuple(s) if isinstance(s, list) else s for s in dec(detail["args"]))
        specs = tuple(_spec_fix(s) for s in specs)
        L = Lib("%d_replay" % os.getpid(), [fn])
        print(fn_decl(fn))
        print("args:", specs, "keyword call" if detail.get("kwargs") else "")
        obs = [L.observe(pi, fn[1], specs, detail.get("kwargs", False)) for pi in range(4)]
        for (pn, _f, _g), o in zip(L.paths, obs):
            print("  %-11s outcome=%r memory=%r errno=%r reached_C=%r errno_seen_by_C=%r" % ((pn,) + o))
        d = compare(obs)
        print("differs:", d)
        return 1 if d is not None else 0
    finally:
        shutil.rmtree(shared, ignore_errors=True)


def _spec_fix(s):
    # enc() keeps the tuple/list distinction inside specs; the spec itself is a tuple
    return tuple(s)
