"""Supplementary families with LARGE sizes for C15, C16, C18 and C20.

The main alphabets of those checks use lengths of a few units, which straddle
every comparison in today's code; a change that introduces a size threshold (a
chunked copy, a stack-buffer fast path, a 16-bit length) only shows beyond it.
Each family is a small exhaustive product over lengths on both sides of 2**8,
2**12 and 2**16 and is judged by the same kind of oracle as the main check.
Violations are reported through ctx.violation with `"family": "large"`.
"""
import struct

LENS = [255, 256, 257, 4095, 4096, 4097, 65535, 65536, 65537]


def _units(T, L, astral_at_end=False, astral_at=None):
    if T in ("char", "signed char", "unsigned char"):
        return bytes((i % 254) + 1 for i in range(L))
    s = "".join(chr(0x21 + (i % 0x5d)) if i % 7 else chr(0x100 + (i % 0x300)) for i in range(L))
    if astral_at_end and L >= 1:
        s = s[:-1] + "\U0001F600"
    if astral_at is not None and L >= 1:
        s = s[:astral_at] + "\U0001F600" + s[astral_at + 1:]
    return s


def c15(ctx):
    """For each type x length x position of an astral character: the open array round trip and one field store
    (as before), and -- added for the audit -- the exact-fit array (no terminator, nothing written at L), the
    array one unit too short (must raise), item assignment x[1] = s on T[3][L+1] between canary rows, for the
    three one-byte character types as well, with the astral character first / in the middle / last."""
    import cffi
    ffi = cffi.FFI()
    n = 0
    nexact = nshort = nitem = 0
    FILLS = {1: b"\x5a", 2: b"\x5a\x5a", 4: b"\xa5\xa5\x05\x00"}
    for T, usz in (("char", 1), ("signed char", 1), ("unsigned char", 1), ("wchar_t", 4), ("char16_t", 2),
                   ("char32_t", 4)):
        tag = T.replace(" ", "_")
        ffi.cdef("struct big_%s { %s pre[2]; %s a[65544]; %s post[2]; };" % (tag, T, T, T))
        fill = FILLS[usz]
        for L in LENS:
            for astral in (("none", "first", "middle", "last") if usz != 1 else ("none",)):
                at = {"none": None, "first": 0, "middle": L // 2, "last": L - 1}[astral]
                s = _units(T, L, astral_at=at)
                has_pair = astral != "none" and usz == 2
                nunits = L + 1 if has_pair else L
                n += 1
                bad = None
                try:
                    p = ffi.new(T + "[]", s)
                    if len(p) != nunits + 1:
                        bad = ("open_length", len(p), nunits + 1)
                    elif ffi.string(p) != s:
                        bad = ("string", None, None)
                    elif not (has_pair and astral == "last") and ffi.string(p, nunits - 1) != s[:-1]:
                        bad = ("string_maxlen", None, None)
                    elif ffi.unpack(p, nunits) != (s if T in ("char", "wchar_t", "char16_t", "char32_t") else
                                                   [c - 256 if c > 127 and T == "signed char" else c for c in s]):
                        bad = ("unpack", None, None)
                    elif p[nunits] not in (b"\x00", "\x00", 0):
                        bad = ("terminator", repr(p[nunits]), None)
                    # field assignment over non-zero memory: terminator written, the rest untouched
                    q = ffi.new("struct big_%s *" % tag)
                    buf = ffi.buffer(q)
                    buf[:] = fill * (len(buf) // usz)
                    q.a = s
                    raw = bytes(ffi.buffer(q.a))
                    units = [raw[i * usz:(i + 1) * usz] for i in range(nunits + 2)]
                    if bad is None and ffi.string(q.a) != s:
                        bad = ("field_string", None, None)
                    if bad is None and units[nunits] != b"\x00" * usz:
                        bad = ("field_no_terminator", units[nunits].hex(), None)
                    if bad is None and units[nunits + 1] != fill:
                        bad = ("field_wrote_past_terminator", units[nunits + 1].hex(), None)
                    if bad is None and bytes(ffi.buffer(q.post)) != fill * 2:
                        bad = ("field_overflow", None, None)
                    del q, buf
                    # the units the stores below must produce (no lone surrogates in these strings, so the
                    # codecs are the model)
                    image = s if usz == 1 else s.encode("utf-16-le" if usz == 2 else "utf-32-le")
                    if len(image) != nunits * usz:
                        raise AssertionError("harness: image has %d bytes" % len(image))
                    if bad is None and bytes(ffi.buffer(p)) != image + b"\x00" * usz:
                        bad = ("open_units", None, None)
                    # exact fit: all units, no terminator, same size
                    if bad is None:
                        nexact += 1
                        e = ffi.new("%s[%d]" % (T, nunits), s)
                        if bytes(ffi.buffer(e)) != image:
                            bad = ("exact_units", None, None)
                        elif ffi.string(e) != s:
                            bad = ("exact_string", None, None)
                        del e
                    # one unit too short: refused
                    if bad is None:
                        nshort += 1
                        try:
                            ffi.new("%s[%d]" % (T, nunits - 1), s)
                            bad = ("too_short_accepted", nunits - 1, None)
                        except Exception:
                            pass
                    # item assignment between canary rows: string, one terminator, nothing else
                    if bad is None:
                        nitem += 1
                        row = nunits + 1
                        x = ffi.new("%s[3][%d]" % (T, row))
                        xb = ffi.buffer(x)
                        xb[:] = fill * (3 * row)
                        x[1] = s
                        got = bytes(xb)
                        if got != fill * row + image + b"\x00" * usz + fill * row:
                            r1 = got[row * usz:2 * row * usz]
                            if got[:row * usz] != fill * row or got[2 * row * usz:] != fill * row:
                                bad = ("item_canary_row_overwritten", None, None)
                            elif r1[nunits * usz:] != b"\x00" * usz:
                                bad = ("item_no_terminator", r1[nunits * usz:].hex(), None)
                            else:
                                bad = ("item_units", None, None)
                        elif ffi.string(x[1]) != s:
                            bad = ("item_string", None, None)
                        else:
                            # and refused without a write when the row is one unit too short
                            x2 = ffi.new("%s[3][%d]" % (T, nunits - 1))
                            x2b = ffi.buffer(x2)
                            x2b[:] = fill * (3 * (nunits - 1))
                            try:
                                x2[1] = s
                                bad = ("item_too_short_accepted", None, None)
                            except Exception:
                                if bytes(x2b) != fill * (3 * (nunits - 1)):
                                    bad = ("item_too_short_wrote", None, None)
                            del x2b, x2
                        del xb, x
                except Exception as e:
                    bad = ("raises", "%s: %s" % (type(e).__name__, e), None)
                if bad:
                    ctx.violation({"kind": "large_" + bad[0], "elem": T, "family": "large"},
                                  {"large": True, "T": T, "L": L, "astral": astral, "what": list(bad)})
    ctx.count("large_string_cases", n)
    ctx.count("large_exact_fit", nexact)
    ctx.count("large_too_short", nshort)
    ctx.count("large_item_assignment", nitem)
    return n


def c18(ctx, only=None):
    """(only: None, or the (T, L, offset, bad_at) of the one case to run -- used by replay.)
    Item types of every fast path (casenum 0-11, the three character widths) and of the generic loop (struct,
    pointer-to-pointer) x L on both sides of 2**8, 2**10, 2**16 x byte offsets; for the types that have
    non-convertible contents (_Bool, wchar_t, char32_t) also with one bad element first / last (index L-1, i.e.
    up to 65536): unpack() must raise what the element-wise read raises and must not return a partial result."""
    import cffi
    ffi = cffi.FFI()
    ffi.cdef("struct c18large { short h; char c; };")
    n = nbad = 0
    types = ["char", "unsigned char", "short", "int", "long long", "float", "double", "_Bool", "wchar_t",
             "char16_t", "void *", "unsigned short",
             # audit round: the remaining casenums (3 long, 6 unsigned int, 7 unsigned long, 0 signed char),
             # char32_t, and two item types of the generic / pointer loop
             "long", "unsigned int", "unsigned long", "signed char", "char32_t", "struct c18large", "int **"]
    patterns = {}

    def image(lst):
        """A comparable image of a list result: values AND their Python types (floats bitwise, cdata by type
        and address)."""
        if not lst:
            return lst
        if isinstance(lst[0], ffi.CData):
            # cdata of pointer / struct type compare equal when they have the same address
            return (list(map(ffi._backend.typeof, lst)), lst)
        if isinstance(lst[0], float):
            return (list(map(type, lst)), struct.pack("<%dd" % len(lst), *lst))
        return (list(map(type, lst)), lst)

    for T in types:
        size = ffi.sizeof(T)
        ischar = T in ("char", "wchar_t", "char16_t", "char32_t")
        for L in (255, 256, 257, 1025, 65537):
            for off in ((0, 1, 3) if T not in ("wchar_t", "char16_t", "char32_t") else (0, size)):
                # (character types: unit-aligned offsets only, so that the units stay the chosen code
                #  points -- misaligned reads of the pattern would create surrogate pairs, whose joining
                #  by unpack() is the known finding K18 and is covered by the main alphabet)
                if L > 65536 and off == 3:
                    continue        # the longest length: aligned and one misaligned start only
                for bad_at in ((None, 0, L - 1) if T in ("_Bool", "wchar_t", "char32_t") else (None,)):
                    if only is not None and (T, L, off, bad_at) != tuple(only):
                        continue
                    if T == "_Bool":
                        data = bytearray((i * 7 + (i >> 3)) & 1 for i in range(L * size + 8))
                        if bad_at is not None:
                            data[off + bad_at] = 2
                    elif T in ("wchar_t", "char32_t"):
                        units = [0x21 + (i % 0x2000) for i in range(L + 2)]
                        if bad_at is not None:
                            units[off // size + bad_at] = 0x110000
                        data = bytearray(struct.pack("<%dI" % len(units), *units))
                    elif T == "char16_t":
                        data = bytearray(b"".join(struct.pack("<H", 0x21 + (i % 0xD000)) for i in range(L + 4)))
                    else:
                        key = L * size + 8
                        if key not in patterns:
                            patterns[key] = bytes((i * 131 + 17) & 0xFF for i in range(key))
                        data = bytearray(patterns[key])
                    ba = data
                    if off + L * size > len(ba):
                        continue
                    base = ffi.from_buffer(ba)
                    p = ffi.cast(ffi.getctype(T, "*"), base + off)
                    n += 1
                    if bad_at is not None:
                        nbad += 1
                    try:
                        r = ffi.unpack(p, L)
                        got = ("value", r if ischar else image(r))
                    except Exception as e:
                        got = ("raises", type(e).__name__)
                    try:
                        if ischar:
                            ref = ("value", (b"" if T == "char" else "").join(p[i] for i in range(L)))
                        else:
                            ref = ("value", image([p[i] for i in range(L)]))
                    except Exception as e:
                        ref = ("raises", type(e).__name__)
                    if bad_at is not None and ref[0] != "raises":
                        raise AssertionError("harness: the element-wise read of a bad %s did not raise" % T)
                    if got != ref:
                        sig = {"kind": "large_unpack_differs", "item": T, "family": "large"}
                        if bad_at is not None:
                            sig["bad_element"] = "first" if bad_at == 0 else "last"
                        ctx.violation(sig, {"large": True, "T": T, "n": L, "offset": off, "bad_at": bad_at})
    ctx.count("large_unpack_cases", n)
    ctx.count("large_unpack_cases_with_a_non_convertible_element", nbad)
    return n


def c16(ctx):
    import cffi
    ffi = cffi.FFI()
    n_cases = 0
    for N in (65537, 70001):
        ba = bytearray(4 * N + 32)
        canary = bytes([0xC3]) * 16
        ba[:16] = canary
        ba[-16:] = canary
        whole = ffi.from_buffer(ba)
        x = ffi.cast("int(*)[%d]" % N, whole + 16)[0]

        def image():
            return bytes(ba)

        def expect_index_error(f, what):
            before = image()
            try:
                f()
            except IndexError:
                if image() != before:
                    return ("indexerror_but_memory_touched", what)
                return None
            except Exception as e:
                return ("wrong_exception", what + ": " + type(e).__name__)
            return ("accepted_out_of_range", what)
        checks = []
        x[0] = 11
        x[N - 1] = 22
        checks.append(None if (x[0], x[N - 1]) == (11, 22) else ("item_rw", "ends"))
        checks.append(None if struct.unpack_from("<i", ba, 16 + 4 * (N - 1))[0] == 22 else ("item_address", "last"))
        for i in (N, N + 1, -1, 2 ** 31, 2 ** 63 - 1):
            checks.append(expect_index_error(lambda i=i: x[i], "read x[%d]" % i))
            checks.append(expect_index_error(lambda i=i: x.__setitem__(i, 5), "write x[%d]" % i))
        for (i, j) in ((0, N + 1), (N, N + 1), (N - 1, N + 2), (5, 3)):
            checks.append(expect_index_error(lambda i=i, j=j: x[i:j], "slice [%d:%d]" % (i, j)))
        v = x[N - 2:N]
        checks.append(None if len(v) == 2 and v[1] == 22 else ("slice_view", "tail"))
        full = x[0:N]
        checks.append(None if len(full) == N and full[N - 1] == 22 else ("slice_view", "full"))
        # slice assignment of 65537 items from list / cdata / iterator; wrong counts must raise ValueError
        M = 65537 if N > 65538 else N - 1
        vals = [(k * 7) % 1000 for k in range(M)]
        for src_kind in ("list", "cdata", "iter"):
            src = vals if src_kind == "list" else (ffi.new("int[]", vals) if src_kind == "cdata" else iter(vals))
            x[1:1 + M] = src
            got = struct.unpack_from("<%di" % M, ba, 16 + 4)
            checks.append(None if list(got) == vals else ("slice_assign_large", src_kind))
            for wrong in (M - 1, M + 1):
                wv = [1] * wrong
                src = wv if src_kind == "list" else (ffi.new("int[]", wv) if src_kind == "cdata" else iter(wv))
                before_head = bytes(ba[:16])
                try:
                    x[1:1 + M] = src
                    checks.append(("slice_assign_wrong_count_accepted", "%s %d for %d" % (src_kind, wrong, M)))
                except ValueError:
                    checks.append(None)
                except Exception as e:
                    checks.append(("wrong_exception", "slice assign " + type(e).__name__))
                x[1:1 + M] = vals
        # overlapping slice assignment (audit gap 3): source and target are views of the same array, shifted by
        # one item.  Same type and length -> one memmove: the OLD values arrive (a memcpy or a forward copy
        # loop shows reliably at this size).  The image is written and read through the bytearray.
        def fill():
            old = [(k * 2654435761 + 12345) % 2 ** 31 for k in range(N)]
            struct.pack_into("<%di" % N, ba, 16, *old)
            return old

        def items():
            return list(struct.unpack_from("<%di" % N, ba, 16))
        def ov_a():
            x[1:N] = x[0:N - 1]
            return old[:1] + old[:N - 1]

        def ov_b():
            x[0:N - 1] = x[1:N]
            return old[1:] + old[N - 1:]

        def ov_c():
            x[0:N - 1] = iter(x[1:N])       # reads ahead of the writes: lazy and materialised agree
            return old[1:] + old[N - 1:]

        def ov_d():
            q = x + 1                       # the same through plain-pointer slices (audit gap 1), negative start
            q[0:N - 1] = q[-1:N - 2]
            return old[:1] + old[:N - 1]

        def ov_e():
            pv = (x + 1)[-1:N - 1]
            if not (len(pv) == N and pv[N - 1] == x[N - 1] and pv[0] == x[0]):
                raise ValueError("pointer slice view differs")
            return old
        for f, what in ((ov_a, "x[1:N] = x[0:N-1]"), (ov_b, "x[0:N-1] = x[1:N]"), (ov_c, "x[0:N-1] = iter(x[1:N])"),
                        (ov_d, "q = x+1; q[0:N-1] = q[-1:N-2]"), (ov_e, "(x+1)[-1:N-1]")):
            old = fill()
            try:
                want = f()
                checks.append(None if items() == want else ("overlap_assign", what))
            except Exception as e:
                checks.append(("overlap_assign_raises", "%s: %s" % (what, type(e).__name__)))
        # pointer arithmetic far away
        p = x + 0
        checks.append(None if (p + (N - 1))[0] == x[N - 1] and (p + N) - p == N else ("pointer_arith", "far"))
        checks.append(None if ffi.addressof(x, N - 1) == p + (N - 1) else ("addressof", "far"))
        checks.append(None if ffi.offsetof("int[]", N - 1) == 4 * (N - 1) else ("offsetof", "far"))
        checks.append(None if bytes(ba[:16]) == canary and bytes(ba[-16:]) == canary else ("canary", "overwritten"))
        for c in checks:
            n_cases += 1
            if c is not None:
                ctx.violation({"kind": "large_" + c[0], "family": "large"}, {"large": True, "N": N, "what": list(c)})
    ctx.count("large_array_cases", n_cases)
    return n_cases


def c20(ctx):
    import cffi
    ffi = cffi.FFI()
    ffi.cdef("struct lv { int n; int tail[]; }; struct lc { short h; char t[]; };")
    n = 0
    for L in (255, 256, 4097, 65536, 65537, 100003):
        for kind in ("length", "list", "dict-length"):
            n += 1
            bad = None
            try:
                if kind == "length":
                    p = ffi.new("struct lv *", [7, L])
                    want_tail = [0] * L
                elif kind == "dict-length":
                    p = ffi.new("struct lv *", {"tail": L})
                    want_tail = [0] * L
                else:
                    want_tail = [(k * 3) % 1001 for k in range(L)]
                    p = ffi.new("struct lv *", [7, want_tail])
                size = ffi.sizeof(p[0])
                if size != 4 + 4 * L:
                    bad = ("sizeof", size, 4 + 4 * L)
                elif len(ffi.buffer(p)) != size:
                    bad = ("buffer_length", len(ffi.buffer(p)), size)
                else:
                    raw = bytes(ffi.buffer(p))
                    got = list(struct.unpack("<%di" % (L + 1), raw))
                    head = 7 if kind != "dict-length" else 0
                    if got != [head] + want_tail:
                        bad = ("content", None, None)
                    elif p.tail[L - 1] != want_tail[-1]:
                        bad = ("last_item", None, None)
                q = ffi.new("struct lc *", [1, b"x" * L])
                if bad is None and (ffi.sizeof(q[0]) < 2 + L or bytes(ffi.buffer(q))[2:2 + L] != b"x" * L):
                    bad = ("char_tail", ffi.sizeof(q[0]), 2 + L)
            except Exception as e:
                bad = ("raises", "%s: %s" % (type(e).__name__, e), None)
            if bad:
                ctx.violation({"kind": "large_" + bad[0], "family": "large"}, {"large": True, "L": L, "init": kind, "what": list(bad)})
    ctx.count("large_flexible_array_cases", n)
    # zero-fill of large top-level arrays (audit gap 6): byte sizes on both sides of the tcache limit (1032) and of
    # the mmap threshold (128 KiB) of glibc malloc and 1 MiB, for char[], int[] and struct[] created by ffi.new and
    # by the default ffi.new_allocator(), each time after dirty (0xFF) blocks of the same size were freed
    ffi.cdef("struct lN { char c; int i; };")
    dflt = ffi.new_allocator()
    m = 0
    for nbytes in (1032, 131056, 131072, 131088, 1 << 20):
        for tname, isz in (("char[]", 1), ("int[]", 4), ("struct lN[]", 8)):
            for aname, alloc in (("new", ffi.new), ("new_allocator", dflt)):
                m += 1
                cnt = nbytes // isz
                blocks = []
                for _ in range(4):
                    b = ffi.new("char[]", nbytes)
                    ffi.buffer(b)[:] = b"\xff" * nbytes
                    blocks.append(b)
                del blocks, b
                bad = None
                try:
                    p = alloc(tname, cnt)
                    raw = bytes(ffi.buffer(p))
                    if len(raw) != cnt * isz or len(p) != cnt:
                        bad = ("length", len(raw), cnt * isz)
                    elif raw.count(0) != len(raw):
                        bad = ("not_zero", len(raw) - raw.count(0), None)
                    del p
                except Exception as e:
                    bad = ("raises", "%s: %s" % (type(e).__name__, e), None)
                if bad:
                    ctx.violation({"kind": "large_array_" + bad[0], "family": "large", "allocator": aname},
                                  {"large": True, "bytes": nbytes, "type": tname, "allocator": aname, "what": list(bad)})
    ctx.count("large_array_zero_fill_cases", m)
    return n + m
