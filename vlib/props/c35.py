"""C35 -- pkg-config output is translated to build keywords without loss.

E1: every token sequence up to a length over a flag-token alphabet, for the
--cflags and the --libs answer, x separators x exit statuses x undecodable /
backslash / non-ASCII answers x package lists of length 1..3.  The answers are
given in-process through a `subprocess` stand-in placed in the namespace of
cffi.pkgconfig; a deterministic subset (~250 cases quick, ~700 thorough) is replayed through a real
stub `pkg-config` script that is first on PATH, and the two routes must agree.
Oracle: a reference translation written from the statement.
"""
import itertools
import os
import re

from .. import build, pool
from ..build import InfraError

ID = "C35"
LEVEL = "exploration"
META = dict(
    engine="E1-enum", level="exploration",
    technique="exhaustive enumeration of pkg-config answers (token sequences x separators x statuses x package "
              "lists) against a reference translation; seam validated by a real stub pkg-config on PATH",
    text="All token sequences of length <= 4 (--cflags) and <= 3 (--libs) over an 11-token alphabet that has every "
         "prefix class, empty values, '=' zero/one/two times and bare '-', x 5 separator styles; the full product of "
         "both answers at small lengths; every failure shape (exit status 1/2/killed, undecodable stdout or stderr, "
         "spawn error, backslash, warnings on stderr) at every call position; all package lists of length 1..3 over "
         "a 38-package universe; merge_flags on all pairs/triples of small dicts.  The returned dict must be a "
         "translation the statement permits and PkgConfigError must be raised exactly on failing/undecodable runs.",
    note="the in-process stand-in for subprocess is validated against a real stub pkg-config executable on ~250 (quick) / ~700 (thorough) cases; "
         "filesystem encoding is UTF-8")

TOKENS = ["-Ia", "-I", "-Lb", "-lc", "-Dk", "-Dk=v", "-Dk=v=w", "-Dk=", "-D=v", "-D", "-pthread", "-Wl,x", "-"]
SEPS = {"space": ("", " ", "\n"), "tab": ("", "\t", "\n"), "newline": ("", "\n", "\n"),
        "double": ("", "  ", "\n"), "padded": (" ", " ", " \n")}
SEP_NAMES = ["space", "tab", "newline", "double", "padded"]
KEYS = ["include_dirs", "library_dirs", "libraries", "define_macros", "extra_compile_args", "extra_link_args"]

def render(tokens, sepname):
    pre, sep, post = SEPS[sepname]
    return (pre + sep.join(tokens) + post).encode("utf-8")


def seqs(alphabet_size, maxlen):
    out = []
    for n in range(maxlen + 1):
        out.extend(itertools.product(range(alphabet_size), repeat=n))
    return out


# ---------------------------------------------------------------------------
# reference translation, written from the statement

_WS = re.compile(r"[ \t\n\r\f\v]+")


def split_tokens(text):
    return [t for t in _WS.split(text) if t]


def macro(tok):
    body = tok[2:]
    if "=" in body:
        i = body.index("=")
        return (body[:i], body[i + 1:])
    return (body, None)


PREFIX_KEY = {"-I": "include_dirs", "-L": "library_dirs", "-l": "libraries", "-D": "define_macros"}
OWN = {"cflags": ("-I", "-D"), "libs": ("-L", "-l")}
EXTRA = {"cflags": "extra_compile_args", "libs": "extra_link_args"}


def value_for(tok, key):
    if key == "define_macros":
        return macro(tok)
    if key in ("extra_compile_args", "extra_link_args"):
        return tok
    return tok[2:]


def placements(pkgs_text):
    """For every package and both answers: list of (token, [allowed keys]) in order.
    A token whose prefix belongs to the other query may go to its prefix's keyword or to
    the extra list of the answer it came from (the statement does not choose)."""
    streams = []      # (package index, which, [(tok, allowed)])
    for pi, (ctext, ltext) in enumerate(pkgs_text):
        for which, text in (("cflags", ctext), ("libs", ltext)):
            items = []
            for tok in split_tokens(text):
                pk = PREFIX_KEY.get(tok[:2])
                if pk is None:
                    allowed = [EXTRA[which]]
                elif tok[:2] in OWN[which]:
                    allowed = [pk]
                else:
                    allowed = [EXTRA[which], pk]         # cross token: first choice = by-answer reading
                items.append((tok, allowed))
            streams.append((pi, which, items))
    return streams


def build_expected(streams, choice):
    """Per key, per package: the two ordered sub-sequences (from --cflags, from --libs)."""
    ci = 0
    npk = 1 + max([s[0] for s in streams], default=-1)
    table = {k: [([], []) for _ in range(npk)] for k in KEYS}
    for pi, which, items in streams:
        for tok, allowed in items:
            if len(allowed) == 1:
                key = allowed[0]
            else:
                key = allowed[choice[ci]]
                ci += 1
            table[key][pi][0 if which == "cflags" else 1].append(value_for(tok, key))
    return table


def is_merge(lst, a, b):
    """lst is an order-preserving interleaving of a and b."""
    if len(lst) != len(a) + len(b):
        return False
    reach = {(0, 0)}
    for x in lst:
        nxt = set()
        for i, j in reach:
            if i < len(a) and a[i] == x:
                nxt.add((i + 1, j))
            if j < len(b) and b[j] == x:
                nxt.add((i, j + 1))
        if not nxt:
            return False
        reach = nxt
    return (len(a), len(b)) in reach


def norm_result(res):
    """Observed dict -> comparable form; None if it is not a dict of the six lists."""
    if not isinstance(res, dict) or sorted(res) != sorted(KEYS):
        return None
    out = {}
    for k in KEYS:
        v = res[k]
        if not isinstance(v, list):
            return None
        if k == "define_macros":
            vv = []
            for m in v:
                if not isinstance(m, (tuple, list)) or len(m) != 2:
                    return None
                vv.append((m[0], m[1]))
            v = vv
        out[k] = list(v)
    return out


def matches(table, obs):
    """Observed lists = per key, packages in call order, each package's part an interleaving
    of its --cflags part and its --libs part (only cross tokens can make both non-empty)."""
    for k in KEYS:
        lst = obs[k]
        parts = table[k]
        # split lst greedily is not sound in general; sizes are fixed, so cut by size
        pos = 0
        for a, b in parts:
            n = len(a) + len(b)
            if not is_merge(lst[pos:pos + n], a, b):
                return False
            pos += n
        if pos != len(lst):
            return False
    return True


def permitted(pkgs_text, obs):
    """Does the statement permit `obs` for these answers?  Returns (ok, reading) where reading
    is 'by-answer' when every cross token sits in its answer's extra list."""
    streams = placements(pkgs_text)
    ncross = sum(1 for _, _, items in streams for _, al in items if len(al) > 1)
    first = (0,) * ncross
    if matches(build_expected(streams, first), obs):
        return True, "by-answer" if ncross else "no-cross-token"
    if ncross > 12:
        raise InfraError("too many cross tokens for the assignment search")
    for choice in itertools.product((0, 1), repeat=ncross):
        if choice != first and matches(build_expected(streams, choice), obs):
            return True, "by-prefix" if all(choice) else "mixed"
    return False, None


# ---------------------------------------------------------------------------
# the stand-in for `subprocess` inside cffi.pkgconfig

class FakeProc(object):
    def __init__(self, rc, out, err):
        import io
        self._rc, self._out, self._err = rc, out, err
        self.returncode = None
        self.stdout = io.BytesIO(out)
        self.stderr = io.BytesIO(err)
        self.pid = 4242

    def communicate(self, input=None, timeout=None):
        self.returncode = self._rc
        return self._out, self._err

    def wait(self, timeout=None):
        self.returncode = self._rc
        return self._rc

    def poll(self):
        self.returncode = self._rc
        return self._rc

    def kill(self):
        pass

    terminate = kill

    def __enter__(self):
        return self

    def __exit__(self, *a):
        return False


class FakeSubprocess(object):
    """Answers like the stub script: argv = pkg-config [--print-errors] <flag> <libname>."""
    def __init__(self, real):
        self._real = real
        self.PIPE = real.PIPE
        self.STDOUT = real.STDOUT
        self.DEVNULL = real.DEVNULL
        self.table = {}
        self.calls = []

    def __getattr__(self, name):
        return getattr(self._real, name)

    def Popen(self, args, **kw):
        args = list(args)
        self.calls.append(args)
        if not args or os.path.basename(args[0]) != "pkg-config":
            raise FileNotFoundError(2, "No such file or directory: %r" % (args[:1],))
        rest = args[1:]
        if rest and rest[0] == "--print-errors":
            rest = rest[1:]
        spec = self.table.get((rest[1], rest[0])) if len(rest) == 2 else None
        if spec is None:
            return FakeProc(97, b"", b"stub: unknown request\n")
        if spec[0] == "oserror":
            if spec[1] == "ENOENT":
                raise FileNotFoundError(2, "No such file or directory: 'pkg-config'")
            raise PermissionError(13, "Permission denied: 'pkg-config'")
        rc, out, err = spec
        return FakeProc(rc, out, err)


_S = {}


def install_fake():
    import subprocess as real
    import cffi.pkgconfig as pc
    if "fake" not in _S:
        _S["fake"] = FakeSubprocess(real)
        _S["real"] = real
    pc.subprocess = _S["fake"]
    return _S["fake"]


def uninstall_fake():
    import cffi.pkgconfig as pc
    pc.subprocess = _S["real"]


# ---------------------------------------------------------------------------
# a case = list of packages; package = (name, cflags_spec, libs_spec)
# spec = (rc, stdout bytes, stderr bytes) | ("oserror", "ENOENT"|"EACCES")

def execute(case, fake):
    import cffi.pkgconfig as pc
    fake.table = {}
    fake.calls = []
    for name, cs, ls in case:
        fake.table[(name, "--cflags")] = tuple(cs)
        fake.table[(name, "--libs")] = tuple(ls)
    try:
        res = pc.flags_from_pkgconfig([p[0] for p in case])
    except Exception as e:
        return ("raise", type(e).__name__, type(e).__module__)
    return ("return", res)


def spec_fails(spec):
    if spec[0] == "oserror":
        return "spawn-error"
    rc, out, err = spec
    if rc != 0:
        return "exit-status"
    try:
        out.decode("utf-8")
    except UnicodeDecodeError:
        return "undecodable"
    return None


def judge(case, outcome):
    """Returns (verdict, klass): verdict None = conforms; else a short kind string."""
    failing = None
    for name, cs, ls in case:
        for spec in (cs, ls):
            f = spec_fails(spec)
            if f and failing is None:
                failing = f
    if failing:
        if outcome[0] == "raise" and outcome[1] == "PkgConfigError":
            return None, "error:" + failing
        if outcome[0] == "raise":
            return "wrong-exception-on-failing-run", "error:" + failing
        return "no-error-on-failing-run", "error:" + failing
    texts = [(cs[1].decode("utf-8"), ls[1].decode("utf-8")) for _, cs, ls in case]
    backslash = any("\\" in t for pair in texts for t in pair)
    if outcome[0] == "raise":
        if backslash and outcome[1] == "PkgConfigError":
            return None, "backslash:refused"        # statement silent: refusing is accepted
        if outcome[1] == "PkgConfigError":
            return "error-on-successful-run", "ok"
        return "exception-on-successful-run", "ok"
    obs = norm_result(outcome[1])
    if obs is None:
        return "malformed-result", "ok"
    ok, reading = permitted(texts, obs)
    if not ok:
        return "wrong-translation", "ok"
    return None, ("backslash:translated" if backslash else "ok:" + reading)


def which_keys_differ(case, outcome):
    """Classification only: keys whose list differs from the by-answer reading."""
    if outcome[0] != "return":
        return []
    obs = norm_result(outcome[1])
    if obs is None:
        return ["(shape)"]
    try:
        texts = [(cs[1].decode("utf-8"), ls[1].decode("utf-8")) for _, cs, ls in case]
    except Exception:
        return []
    streams = placements(texts)
    ncross = sum(1 for _, _, items in streams for _, al in items if len(al) > 1)
    table = build_expected(streams, (0,) * ncross)
    bad = []
    for k in KEYS:
        want = []
        for a, b in table[k]:
            want.extend(a + b)
        if obs[k] != want:
            bad.append(k)
    return bad


# ---------------------------------------------------------------------------
# families (each maps an index to a case; workers regenerate cases from indexes)

def okspec(text_bytes, err=b""):
    return (0, text_bytes, err)


class Space(object):
    def __init__(self, quick):
        self.quick = quick
        n = len(TOKENS)
        self.plen = 2 if quick else 3          # lengths <= plen are covered by the full product F2
        self.c4 = [q for q in seqs(n, 4) if len(q) > self.plen]
        self.l3 = seqs(n, 3)
        self.c2 = seqs(n, 2)
        self.l2 = seqs(n, 2)
        self.c3 = seqs(n, 3)
        self.fam = []
        # F1: every --cflags sequence of length plen+1..4, every separator; --libs cycles through all sequences <= 3
        self.fam.append(("F1-cflags%d..4" % (self.plen + 1), len(self.c4) * len(SEP_NAMES), self.f1))
        # F2: full product of both answers at small lengths
        if quick:
            self.fam.append(("F2-product<=2x<=2", len(self.c2) * len(self.l2) * len(SEP_NAMES), self.f2))
        else:
            self.fam.append(("F2-product<=3x<=3", len(self.c3) * len(self.l3), self.f2))
        # F3: every --libs sequence <= 3 with every separator against a fixed --cflags answer
        self.fam.append(("F3-libs<=3", len(self.l3) * len(SEP_NAMES), self.f3))
        # F4: failure shapes
        self.f4cases = self.make_f4()
        self.fam.append(("F4-failures", len(self.f4cases), lambda i: self.f4cases[i]))
        # F5: package lists
        self.universe = self.make_universe()
        self.f5lists = [l for n in (1, 2, 3) for l in itertools.product(range(len(self.universe)), repeat=n)]
        self.fam.append(("F5-package-lists", len(self.f5lists), self.f5))

    def toks(self, idx):
        return [TOKENS[i] for i in idx]

    def f1(self, i):
        ci, si = divmod(i, len(SEP_NAMES))
        li = ci % len(self.l3)
        lsep = SEP_NAMES[(si + ci) % len(SEP_NAMES)]
        return [("libfoo", okspec(render(self.toks(self.c4[ci]), SEP_NAMES[si])),
                 okspec(render(self.toks(self.l3[li]), lsep)))]

    def f2(self, i):
        if self.quick:
            cs, ls = self.c2, self.l2
            rest, si = divmod(i, len(SEP_NAMES))
            ci, li = divmod(rest, len(ls))
        else:                       # thorough: the separator style cycles with the pair instead of multiplying it
            cs, ls = self.c3, self.l3
            ci, li = divmod(i, len(ls))
            si = (ci + 2 * li) % len(SEP_NAMES)
        return [("libfoo", okspec(render(self.toks(cs[ci]), SEP_NAMES[si])),
                 okspec(render(self.toks(ls[li]), SEP_NAMES[si])))]

    def f3(self, i):
        li, si = divmod(i, len(SEP_NAMES))
        return [("libbar >= 1.8.3", okspec(b"-Iinc -DNDEBUG \n"), okspec(render(self.toks(self.l3[li]), SEP_NAMES[si])))]

    def make_f4(self):
        good_c = [b"\n", b"-Ia -Dk=v -pthread\n"]
        good_l = [b"\n", b"-Lb -lc -Wl,x\n"]
        bad_status = [(1, b"", b"Package foo was not found in the pkg-config search path.\n"),
                      (1, b"-Ia -lc\n", b""),                     # failing run that still printed flags
                      (2, b"", b"\xff\xfe undecodable error text\n"),
                      (-9, b"", b""),
                      (255, b"-Ia\n", b"error\n")]
        undecodable = [(0, b"-I\xff\n", b""), (0, b"-Ia \xc3\n", b""), (0, b"\xff", b"warning\n")]
        spawn = [("oserror", "ENOENT"), ("oserror", "EACCES")]
        special_ok = [(0, b"-Ia -Dk=v\n", b"warning: something harmless\n"),      # stderr noise, success
                      (0, "-Iä/ü -Dk=é -lß -Wl,ø\n".encode("utf-8"), b""),          # valid non-ASCII
                      (0, b"-I/a\\ b -DX\n", b""),                                    # backslash
                      (0, b"-lc\\\n", b""),
                      (0, b"", b""),                                                  # no newline at all
                      (0, b"-Ia", b""),                                               # no trailing newline
                      (0, b"\r\n-Ia\r\n-Dk\r\n", b""),                               # CR LF
                      (0, b"-I -I -I\n", b"")]                                        # only empty values
        bads = bad_status + undecodable + spawn
        out = []
        # single package: every (cflags answer, libs answer) over good + bad + special
        allc = [okspec(x) for x in good_c] + bads + special_ok
        alll = [okspec(x) for x in good_l] + bads + special_ok
        for cs in allc:
            for ls in alll:
                out.append([("libfoo", cs, ls)])
        # two and three packages: one bad/special answer at every call position, others good
        good = ("lib%d", okspec(good_c[1]), okspec(good_l[1]))
        for npk in (2, 3):
            for pos in range(npk):
                for which in (0, 1):
                    for b in bads + special_ok:
                        case = []
                        for j in range(npk):
                            cs, ls = good[1], good[2]
                            if j == pos:
                                if which == 0:
                                    cs = b
                                else:
                                    ls = b
                            case.append(("lib%d" % j, cs, ls))
                        out.append(case)
        return out

    def make_universe(self):
        cf = ["", "-Ia", "-Ib", "-Dk=v", "-pthread", "-Ia -Ib"]
        lf = ["", "-Lb", "-lc", "-ld", "-Wl,x", "-lc -ld"]
        uni = []
        for a in cf:
            for b in lf:
                uni.append((okspec((a + "\n").encode()), okspec((b + " \n").encode())))
        uni.append(((1, b"", b"not found\n"), okspec(b"-lc\n")))
        uni.append((okspec(b"-Ia\n"), (0, b"-l\xff\n", b"")))
        return uni

    def f5(self, i):
        return [("pkg%d" % u, self.universe[u][0], self.universe[u][1]) for u in self.f5lists[i]]

    def total(self):
        return sum(n for _, n, _ in self.fam)


def classify(case):
    """Input classes for the histogram (which comparisons of the code the case touches)."""
    cl = set()
    cl.add("packages_%d" % len(case))
    for name, cs, ls in case:
        for which, spec in (("cflags", cs), ("libs", ls)):
            f = spec_fails(spec)
            if f:
                cl.add("fails:" + f)
                continue
            text = spec[1].decode("utf-8")
            toks = split_tokens(text)
            if not toks:
                cl.add("empty_" + which)
            for t in toks:
                p = t[:2]
                if p in PREFIX_KEY:
                    if p in OWN[which]:
                        cl.add("own_prefix" + p)
                        if len(t) == 2:
                            cl.add("empty_value" + p)
                    else:
                        cl.add("cross_token")
                else:
                    cl.add("other_token")
                if p == "-D":
                    cl.add("macro_eq_%d" % min(2, t.count("=")))
            if len(toks) != len(set(toks)):
                cl.add("repeated_token")
            if "\\" in text:
                cl.add("backslash")
            if any(ord(c) > 127 for c in text):
                cl.add("nonascii_decodable")
            if spec[2]:
                cl.add("stderr_noise_on_success")
    return cl


_W = {}


def work(block):
    """block = (family index, start, stop).  Runs every case of the range in-process."""
    import collections
    fi, start, stop = block
    if "space" not in _W:
        raise InfraError("space not initialised")
    sp = _W["space"]
    fake = install_fake()
    fname, n, gen = sp.fam[fi]
    hist = collections.Counter()
    bad = []
    nontrivial = 0
    for i in range(start, stop):
        case = gen(i)
        outcome = execute(case, fake)
        verdict, klass = judge(case, outcome)
        cl = classify(case)
        for c in cl:
            hist["in:" + c] += 1
        hist["out:" + klass] += 1
        if cl & {"cross_token", "repeated_token", "macro_eq_2", "empty_value-I", "empty_value-D", "empty_value-L",
                 "empty_value-l", "backslash", "nonascii_decodable", "stderr_noise_on_success"} or \
                any(c.startswith("fails:") for c in cl) or len(case) > 1:
            nontrivial += 1
        if verdict:
            bad.append((fname, i, verdict, sorted(cl), which_keys_differ(case, outcome), case,
                        outcome if outcome[0] == "raise" else ("return", outcome[1])))
    return fi, stop - start, nontrivial, hist, bad


# ---------------------------------------------------------------------------
# real stub on PATH

def build_stub():
    """Compile harness/c35_stub_pkgconfig.c once (driver) into the shared scratch directory."""
    out = os.path.join(build.scratch_shared(), "c35_stub_pkgconfig")
    if not os.path.exists(out):
        with open(os.path.join(build.HARNESS, "c35_stub_pkgconfig.c")) as f:
            src = f.read()
        try:                          # static: exec of a dynamic binary costs twice as much on this machine
            build.cc(src, out, flags=["-static", "-O1"], shared=False)
        except InfraError:
            build.cc(src, out, flags=["-O1"], shared=False)
    _W["stub"] = out
    return out


def real_execute(case, root):
    """Run one case through a real executable called pkg-config that is first on PATH."""
    import shutil
    import cffi.pkgconfig as pc
    uninstall_fake()
    if os.path.isdir(root):
        shutil.rmtree(root)
    bindir = os.path.join(root, "bin")
    data = os.path.join(root, "data")
    os.makedirs(bindir)
    os.makedirs(data)
    mode = "stub"
    for name, cs, ls in case:
        for flag, spec in (("--cflags", cs), ("--libs", ls)):
            if spec[0] == "oserror":
                mode = spec[1]
                continue
            safe = re.sub(r"[^A-Za-z0-9]", "_", name)
            base = os.path.join(data, safe + flag)
            with open(base + ".rc", "w") as f:
                f.write("%d\n" % spec[0])
            with open(base + ".out", "wb") as f:
                f.write(spec[1])
            with open(base + ".err", "wb") as f:
                f.write(spec[2])
    stub = os.path.join(bindir, "pkg-config")
    oldpath = os.environ.get("PATH", "")
    if mode == "stub":
        os.symlink(_W["stub"], stub)
        os.environ["PATH"] = bindir
    elif mode == "EACCES":
        with open(stub, "w") as f:
            f.write("not executable\n")
        os.chmod(stub, 0o644)                    # present but not executable
        os.environ["PATH"] = bindir
    else:
        os.environ["PATH"] = bindir               # no pkg-config anywhere on PATH
    os.environ["C35_STUB_DATA"] = data
    try:
        try:
            res = pc.flags_from_pkgconfig([p[0] for p in case])
        except Exception as e:
            return ("raise", type(e).__name__, type(e).__module__)
        return ("return", res)
    finally:
        os.environ["PATH"] = oldpath
        shutil.rmtree(root, ignore_errors=True)


def real_compatible(case):
    """Cases the real stub can express: without a pkg-config executable *every* call fails to spawn,
    so a spawn error is only expressible as the very first call (after which nothing else is called)."""
    first = True
    for name, cs, ls in case:
        for spec in (cs, ls):
            if spec[0] == "oserror" and not first:
                return False
            first = False
    return True


def work_real(item):
    fi, i = item
    sp = _W["space"]
    case = sp.fam[fi][2](i)
    fake = install_fake()
    o1 = execute(case, fake)
    o2 = real_execute(case, os.path.join(build.scratch(), "stubroot"))
    install_fake()
    return fi, i, o1 == o2, o1, o2


# ---------------------------------------------------------------------------
# merge_flags directly

def merge_cases():
    vals = [None, [], ["x"], ["x", "y"], ["y"]]
    dicts = []
    for a in vals:
        for b in vals:
            d = {}
            if a is not None:
                d["k1"] = list(a)        # fresh lists: no aliasing between keys
            if b is not None:
                d["k2"] = list(b)
            dicts.append(d)
    return dicts


def run_merge(ctx):
    import copy
    import cffi.pkgconfig as pc
    dicts = merge_cases()
    n = 0
    for chain in itertools.chain(itertools.product(range(len(dicts)), repeat=2),
                                 itertools.product(range(0, len(dicts), 3), repeat=3)):
        ds = [copy.deepcopy(dicts[i]) for i in chain]
        want = {}
        for d in ds:
            for k, v in d.items():
                want.setdefault(k, [])
                want[k] = want[k] + list(v)
        acc = copy.deepcopy(ds[0])
        try:
            for d in ds[1:]:
                r = pc.merge_flags(acc, copy.deepcopy(d))
                if r is not None:
                    acc = r
            got = acc
        except Exception as e:
            got = "%s" % type(e).__name__
        n += 1
        ctx.count("merge:len%d" % len(chain))
        if got != want:
            ctx.violation({"kind": "merge_flags-wrong", "chain": len(chain)},
                          {"family": "merge", "dicts": [dicts[i] for i in chain], "got": got, "want": want})
    return n


# ---------------------------------------------------------------------------

def run(ctx):
    import collections
    sp = Space(ctx.quick)
    _W["space"] = sp
    total = sp.total()
    ctx.log("space: %s" % ", ".join("%s=%d" % (f[0], f[1]) for f in sp.fam))
    blocks = []
    for fi, (fname, n, gen) in enumerate(sp.fam):
        step = 4000
        for s in range(0, n, step):
            blocks.append((fi, s, min(n, s + step)))
        for i in sorted({0, n // 7, n // 3, n // 2, n - 1}):
            c = gen(i)
            ctx.sample({"family": fname, "index": i,
                        "packages": [{"name": p[0], "cflags": list(p[1]), "libs": list(p[2])} for p in c]})
    # seam validation through a real executable
    picks = []
    want_real = 150 if ctx.quick else 600
    for fi, (fname, n, gen) in enumerate(sp.fam):
        share = max(20, want_real * n // total) if fname != "F4-failures" else min(n, want_real // 3)
        step = max(1, n // share)
        picks.extend((fi, i) for i in range(0, n, step))
    picks = [p for p in picks if real_compatible(sp.fam[p[0]][2](p[1]))]
    build_stub()
    ctx.log("replaying %d cases through a real stub pkg-config first" % len(picks))
    nreal = nreal_err = 0
    chunks = list(pool.chunks(picks, 8))
    mism = []
    for item, r in pool.pmap(work_real, chunks, nproc=4):      # process creation does not scale here
        if isinstance(r, (pool.WorkerError, pool.Crash)):
            raise InfraError("real-stub worker failed: %r" % (r,))
        fi, i, same, o1, o2 = r
        nreal += 1
        if o2[0] == "raise":
            nreal_err += 1
        if not same:
            mism.append((fi, i, o1, o2))
    if mism:
        fi, i, o1, o2 = sorted(mism)[0]
        raise InfraError("the in-process stand-in and the real stub pkg-config disagree on %d case(s), e.g. %s[%d]: "
                         "%r vs %r" % (len(mism), sp.fam[fi][0], i, o1, o2))
    ctx.log("real stub replays done")
    ctx.count("real_stub_replays", nreal)
    ctx.count("real_stub_replays_raising", nreal_err)
    evaluated = nontrivial = 0
    hist = collections.Counter()
    bad_all = []
    for block, r in pool.pmap(work, [[b] for b in blocks], nproc=8 if ctx.quick else None):
        if isinstance(r, (pool.WorkerError, pool.Crash)):
            raise InfraError("worker failed: %r" % (r,))
        fi, n, nt, h, bad = r
        evaluated += n
        nontrivial += nt
        hist.update(h)
        bad_all.extend(bad)
    if evaluated != total:
        raise InfraError("evaluated %d of %d cases" % (evaluated, total))
    for k, v in hist.items():
        ctx.count(k, v)
    def case_size(case):
        return sum(len(sp_[1]) if sp_[0] != "oserror" else 0 for p in case for sp_ in (p[1], p[2])) + 100 * len(case)

    bad_all.sort(key=lambda b: (case_size(b[5]), b[0], b[1]))          # smallest counterexample first
    for fname, i, verdict, cl, keys, case, outcome in bad_all:
        ctx.violation({"kind": verdict, "family": fname.split("-")[0], "keys": keys,
                       "failing_run": sorted(c[6:] for c in cl if c.startswith("fails:"))},
                      {"family": fname, "index": i, "classes": cl, "case": case, "observed": outcome})
    ctx.log("in-process families done: %d cases" % evaluated)
    # merge_flags
    install_fake()
    nmerge = run_merge(ctx)
    cov = {
        "evaluations": evaluated + nmerge,
        "distinct_nontrivial": nontrivial,
        "rule": "11-token alphabet %r; F1 = every --cflags sequence of length p+1..4 x 5 separator styles (the --libs answer "
                "cycles through every sequence <= 3; lengths <= p are in F2); F2 = full product of --cflags sequences <= %d "
                "and --libs sequences <= %d x %s; F3 = every --libs sequence <= 3 x 5 separators; F4 = every pair of "
                "(good | failing | undecodable | spawn error | backslash | non-ASCII | CRLF | no newline) answers for one "
                "package and each of them at every call position of 2 and 3 packages; F5 = all package lists of length "
                "1..3 over a %d-package universe; plus merge_flags on all pairs and a grid of triples of small dicts.  "
                "non-trivial = has a cross-prefix token, a repeated token, an empty value, a second '=', a failing run, "
                "non-ASCII/backslash text or more than one package (cases are distinct by construction)" % (
                    TOKENS, 2 if ctx.quick else 3, 2 if ctx.quick else 3,
                    "5 separator styles" if ctx.quick else "one separator style per pair, cycling through the 5",
                    len(sp.universe)),
        "exhaustive": True,
        "bound": {"cflags_len": 4, "libs_len": 3, "product_len": 2 if ctx.quick else 3, "package_list_len": 3},
        "families": {f[0]: f[1] for f in sp.fam},
        "merge_flags_chains": nmerge,
        "real_stub_replays": nreal,
    }
    return ctx.finish(cov, [
        "subprocess is replaced only inside the cffi.pkgconfig namespace; %d cases were also run through a real "
        "executable named pkg-config placed first on PATH and gave identical outcomes" % nreal,
        "a token whose prefix belongs to the other query (e.g. -l in --cflags) may be kept either in its prefix's "
        "keyword or in that answer's extra list; exactly once and in order either way",
        "answers containing a backslash may be refused with PkgConfigError or translated (statement silent)",
        "whitespace = ASCII space, tab, LF, CR, FF, VT; filesystem encoding UTF-8"])


def replay(detail):
    if detail.get("family") == "merge":
        import copy
        import cffi.pkgconfig as pc
        ds = [copy.deepcopy(d) for d in detail["dicts"]]
        acc = ds[0]
        for d in ds[1:]:
            acc = pc.merge_flags(acc, d) or acc
        print("merge_flags chain", detail["dicts"], "->", acc, "expected", detail["want"])
        return 1 if acc != detail["want"] else 0
    case = [(p[0], tuple(p[1]), tuple(p[2])) for p in detail["case"]]
    fake = install_fake()
    outcome = execute(case, fake)
    verdict, klass = judge(case, outcome)
    for name, cs, ls in case:
        print("package %r\n  --cflags -> %r\n  --libs   -> %r" % (name, cs, ls))
    print("calls made:", fake.calls)
    print("observed:", outcome)
    print("verdict :", verdict or "conforms", "(%s)" % klass)
    if real_compatible(case):
        build_stub()
        o2 = real_execute(case, os.path.join(build.scratch(), "stubroot"))
        print("through a real stub executable on PATH:", o2)
    return 1 if verdict else 0
