"""Declaration alphabet, argument alphabets and probes of C33 (verify() vs set_source()).

Every item is self-contained (own names, prefix = item key) so that any set of
items concatenates into a valid (cdef, C source) pair.  A probe records
label -> outcome into a dict; labels are static strings ("item|kind|detail"),
outcomes are plain data: a normalised value or ("exc", exception type name).
"""

PRELUDE = ("#include <stddef.h>\n#include <stdint.h>\n#include <stdarg.h>\n#include <string.h>\n"
           "#include <wchar.h>\n")


def is_exc(o):
    return isinstance(o, (tuple, list)) and len(o) == 2 and o[0] == "exc"


class Probe(object):
    def __init__(self, ffi, lib, item, obs, intfacts):
        self.ffi = ffi
        self.lib = lib
        self.item = item
        self.obs = obs
        self.intfacts = intfacts

    # ---- normalisation -------------------------------------------------------------
    def tdesc(self, ct, depth=0):
        """Structural description of a ctype: the statement promises behaviour and layouts, not
        the *names* under which struct types are printed (a tagged struct may be shown under its
        typedef name by the in-line parser)."""
        k = ct.kind
        if k in ("primitive", "void"):
            return ct.cname
        if k == "enum":
            return "enum"
        if k in ("struct", "union"):
            return k
        if k == "pointer":
            return "*" + (self.tdesc(ct.item, depth + 1) if depth < 4 else "?")
        if k == "array":
            return "[%s]%s" % (ct.length, self.tdesc(ct.item, depth + 1) if depth < 4 else "?")
        if k == "function":
            return "fn(%s)->%s%s" % (",".join(self.tdesc(a, depth + 1) for a in ct.args),
                                     self.tdesc(ct.result, depth + 1), "..." if ct.ellipsis else "")
        return k

    def nz(self, x, depth=0):
        ffi = self.ffi
        if x is None or isinstance(x, (str, bytes)):
            return x
        if isinstance(x, bool):
            return ("bool", int(x))
        if isinstance(x, int):
            return x
        if isinstance(x, float):
            return ("float", "nan" if x != x else x.hex())
        if isinstance(x, (list, tuple)):
            return [self.nz(v, depth + 1) for v in x]
        if isinstance(x, dict):
            return {str(k): self.nz(v, depth + 1) for k, v in sorted(x.items())}
        if isinstance(x, ffi.CType):
            return ("ctype", self.tdesc(x))
        if isinstance(x, ffi.CData):
            ct = ffi.typeof(x)
            k = ct.kind
            td = self.tdesc(ct)
            if k == "primitive":
                if ct.cname in ("float", "double", "long double"):
                    return ("cdata", td, self.nz(float(x)))
                return ("cdata", td, int(x))
            if k == "enum":
                return ("cdata", td, int(x))
            if k in ("pointer", "function"):
                return ("cdata", td, "NULL" if x == ffi.NULL else "non-null")
            if k in ("struct", "union"):
                if depth > 3:
                    return ("cdata", td)
                return ("cdata", td, [[n, self.nz(getattr(x, n), depth + 1)] for n, f in ct.fields])
            if k == "array":
                n = len(x)
                return ("cdata", td, [self.nz(x[i], depth + 1) for i in range(min(n, 8))])
            return ("cdata", td)
        if callable(x):
            return "callable"
        return ("object", type(x).__name__)

    def rec(self, kind, detail, thunk):
        label = "%s|%s|%s" % (self.item, kind, detail)
        try:
            v = self.nz(thunk())
        except Exception as e:
            # which exception type a *layout* query on an incomplete/opaque type raises is not part of
            # the statement (it promises equal layouts and equal call conversion errors)
            v = ("exc", "any" if kind == "layout" else type(e).__name__)
        if label in self.obs:
            raise RuntimeError("duplicate probe label " + label)
        self.obs[label] = v
        return v

    # ---- helpers ----------------------------------------------------------------------
    def call(self, fname, args, kind="call"):
        """args: list of (description, maker(ffi)) ; one call"""
        descr = ",".join(a[0] for a in args)

        def thunk():
            vals = [a[1](self.ffi) for a in args]
            return getattr(self.lib, fname)(*vals)
        return self.rec(kind, "%s(%s)" % (fname, descr), thunk)

    def exposed(self, names):
        for n in names:
            self.rec("exposed", n, lambda n=n: hasattr(self.lib, n))
        self.rec("exposed", "dir", lambda: sorted(x for x in dir(self.lib) if x in names))

    def layout(self, T, fields=True):
        ffi = self.ffi
        self.rec("layout", "sizeof " + T, lambda: ffi.sizeof(T))
        self.rec("layout", "alignof " + T, lambda: ffi.alignof(T))
        if fields:
            def fl():
                out = []
                for n, f in ffi.typeof(T).fields:
                    out.append([n, self.tdesc(f.type), f.offset, f.bitshift, f.bitsize])
                return out
            self.rec("layout", "fields " + T, fl)

    def int_range(self, t):
        size, signed, _ = self.intfacts[t]
        if t == "_Bool":
            return 0, 1
        if signed:
            return -(1 << (8 * size - 1)), (1 << (8 * size - 1)) - 1
        return 0, (1 << (8 * size)) - 1


def V(descr, value):
    return (descr, lambda ffi: value)


def int_args(lo, hi):
    """Boundary-complete and wrong-type arguments for an integer parameter."""
    vals = sorted({lo - 1, lo, lo + 1, -1, 0, 1, hi - 1, hi, hi + 1, 1 << 63, (1 << 63) - 1, 1 << 64, -(1 << 63) - 1,
                   10 ** 30, -10 ** 30})
    out = [V("int:%d" % v, v) for v in vals]
    out += [V("float:1.0", 1.0), V("float:1.5", 1.5), V("str:a", "a"), V("bytes:a", b"a"), V("None", None),
            V("bool:True", True), V("list:[1]", [1]),
            ("cdata:int 7", lambda ffi: ffi.cast("int", 7)),
            ("cdata:long long -1", lambda ffi: ffi.cast("long long", -1)),
            ("cdata:char A", lambda ffi: ffi.cast("char", b"A")),
            ("cdata:double 2.0", lambda ffi: ffi.cast("double", 2.0)),
            ("cdata:int*", lambda ffi: ffi.new("int *", 3))]
    return out


FLOAT_ARGS = [V("float:0.0", 0.0), V("float:-0.0", -0.0), V("float:1.5", 1.5), V("float:0.1", 0.1),
              V("float:1e40", 1e40), V("float:-1e40", -1e40), V("float:1e-50", 1e-50), V("float:1e308", 1e308),
              V("float:inf", float("inf")), V("float:nan", float("nan")), V("int:3", 3), V("int:2**53+1", 2 ** 53 + 1),
              V("int:10**400", 10 ** 400), V("bool:True", True), V("str:x", "x"), V("None", None), V("bytes:a", b"a"),
              ("cdata:double 2.5", lambda ffi: ffi.cast("double", 2.5)),
              ("cdata:float 0.1", lambda ffi: ffi.cast("float", 0.1)),
              ("cdata:long double 1", lambda ffi: ffi.cast("long double", 1)),
              ("cdata:int 7", lambda ffi: ffi.cast("int", 7))]

ITEMS = []
ITEM = {}


def item(key, cdef, src, names):
    def deco(fn):
        d = dict(key=key, cdef=cdef, src=src, probe=fn, names=names)
        ITEMS.append(d)
        ITEM[key] = d
        return fn
    return deco


# =======================================================================================
# 1. functions over every integer width (+ _Bool, char, wchar_t)

_INT_T = [("i8", "signed char"), ("u8", "unsigned char"), ("i16", "short"), ("u16", "unsigned short"),
          ("i32", "int"), ("u32", "unsigned int"), ("il", "long"), ("ul", "unsigned long"),
          ("i64", "long long"), ("u64", "unsigned long long"), ("b", "_Bool")]


@item("fint",
      "".join("%s fi_id_%s(%s);\ndouble fi_dbl_%s(%s);\n" % (t, k, t, k, t) for k, t in _INT_T),
      "".join("%s fi_id_%s(%s x) { return x; }\ndouble fi_dbl_%s(%s x) { return (double)x; }\n" % (t, k, t, k, t)
              for k, t in _INT_T),
      ["fi_id_" + k for k, t in _INT_T] + ["fi_dbl_" + k for k, t in _INT_T])
def _p_fint(P):
    P.exposed(ITEM["fint"]["names"])
    for k, t in _INT_T:
        lo, hi = P.int_range(t)
        for a in int_args(lo, hi):
            P.call("fi_id_" + k, [a])
            P.call("fi_dbl_" + k, [a])
        P.rec("call", "fi_id_%s()" % k, lambda: getattr(P.lib, "fi_id_" + k)())
        P.rec("call", "fi_id_%s(1,2)" % k, lambda: getattr(P.lib, "fi_id_" + k)(1, 2))


@item("fchar",
      "char fc_id(char);\nint fc_ord(char);\nwchar_t fc_wid(wchar_t);\nlong fc_word(wchar_t);\nchar fc_chr(int);\n",
      "char fc_id(char x) { return x; }\nint fc_ord(char x) { return x; }\nwchar_t fc_wid(wchar_t x) { return x; }\n"
      "long fc_word(wchar_t x) { return (long)x; }\nchar fc_chr(int x) { return (char)x; }\n",
      ["fc_id", "fc_ord", "fc_wid", "fc_word", "fc_chr"])
def _p_fchar(P):
    P.exposed(ITEM["fchar"]["names"])
    cargs = [V("bytes:a", b"a"), V("bytes:00", b"\x00"), V("bytes:ff", b"\xff"), V("bytes:ab", b"ab"),
             V("bytes:empty", b""), V("str:a", "a"), V("int:65", 65), V("None", None), V("float:1.0", 1.0),
             ("cdata:char A", lambda ffi: ffi.cast("char", b"A")), ("cdata:int 65", lambda ffi: ffi.cast("int", 65))]
    for a in cargs:
        P.call("fc_id", [a])
        P.call("fc_ord", [a])
    wargs = [V("str:a", "a"), V("str:u1234", "ሴ"), V("str:U10000", "\U00010000"), V("str:ab", "ab"),
             V("str:empty", ""), V("bytes:a", b"a"), V("int:65", 65), V("None", None),
             ("cdata:wchar_t x", lambda ffi: ffi.cast("wchar_t", "x"))]
    for a in wargs:
        P.call("fc_wid", [a])
        P.call("fc_word", [a])
    for v in (0, 65, 127, 128, 255, -1):
        P.call("fc_chr", [V("int:%d" % v, v)])


# =======================================================================================
# 2. floating point

@item("ffloat",
      "float ff_f(float);\ndouble ff_d(double);\nlong double ff_ld(long double);\ndouble ff_add(double, float);\n"
      "double ff_ld2d(long double);\n",
      "float ff_f(float x) { return x; }\ndouble ff_d(double x) { return x; }\n"
      "long double ff_ld(long double x) { return x; }\ndouble ff_add(double a, float b) { return a + b; }\n"
      "double ff_ld2d(long double x) { return (double)x; }\n",
      ["ff_f", "ff_d", "ff_ld", "ff_add", "ff_ld2d"])
def _p_ffloat(P):
    P.exposed(ITEM["ffloat"]["names"])
    for a in FLOAT_ARGS:
        for f in ("ff_f", "ff_d", "ff_ld", "ff_ld2d"):
            P.call(f, [a])
        P.call("ff_add", [a, V("float:0.5", 0.5)])
        P.call("ff_add", [V("float:0.5", 0.5), a])


# =======================================================================================
# 3. pointers

@item("fptr",
      "int fp_sum(int *, int);\nvoid fp_fill(int *, int);\nint fp_first2(char *);\nchar *fp_hello(void);\n"
      "void *fp_vp(void *);\nint fp_isnull(const void *);\nlong fp_len(const char *);\nint **fp_pp(int **);\n"
      "int fp_cisnull(const char *);\n",
      "int fp_sum(int *p, int n) { int i, s = 0; for (i = 0; i < n; i++) s += p[i]; return s; }\n"
      "void fp_fill(int *p, int n) { int i; for (i = 0; i < n; i++) p[i] = i * i + 1; }\n"
      "int fp_first2(char *s) { return s[0] * 256 + s[1]; }\n"
      "char *fp_hello(void) { static char h[] = \"hello\"; return h; }\n"
      "void *fp_vp(void *p) { return p; }\nint fp_isnull(const void *p) { return p == 0; }\n"
      "long fp_len(const char *s) { return (long)strlen(s); }\nint **fp_pp(int **p) { return p; }\n"
      "int fp_cisnull(const char *s) { return s == 0; }\n",
      ["fp_sum", "fp_fill", "fp_first2", "fp_hello", "fp_vp", "fp_isnull", "fp_len", "fp_pp", "fp_cisnull"])
def _p_fptr(P):
    ffi = P.ffi
    P.exposed(ITEM["fptr"]["names"])
    pargs = [("cdata:int[3]", lambda ffi: ffi.new("int[3]", [1, 2, 3])), V("list:[1,2,3]", [1, 2, 3]),
             V("tuple:(4,5,6)", (4, 5, 6)), V("list:300", list(range(300))), V("list:[]", []),
             V("list:[1,'a',3]", [1, "a", 3]), V("list:[1,2**40,3]", [1, 2 ** 40, 3]),
             ("cdata:int* 5", lambda ffi: ffi.new("int *", 5)), ("cdata:short[3]", lambda ffi: ffi.new("short[3]")),
             ("cdata:void*", lambda ffi: ffi.cast("void *", ffi.new("int[3]", [7, 8, 9]))),
             V("bytes:abcd", b"abcd"), V("str:abcd", "abcd"), V("int:0", 0), V("int:5", 5), V("None", None),
             V("float:1.0", 1.0), V("dict", {"a": 1}), V("bytearray", bytearray(12))]
    for a in pargs:
        n = {"list:300": 300, "cdata:int* 5": 1, "bytes:abcd": 1, "list:[]": 0, "str:abcd": 0, "int:0": 0, "int:5": 0,
             "None": 0, "float:1.0": 0, "dict": 0}.get(a[0], 3)
        P.call("fp_sum", [a, V("int:%d" % n, n)])
    P.call("fp_sum", [("NULL", lambda ffi: ffi.NULL), V("int:0", 0)])

    def fill():
        a = ffi.new("int[5]")
        P.lib.fp_fill(a, 5)
        return list(a)
    P.rec("call", "fp_fill(cdata int[5])", fill)
    sargs = [V("bytes:hi", b"hi"), V("bytes:h", b"h"), V("str:hi", "hi"), V("list:[104,105]", [104, 105]),
             V("list:[b'h',b'i']", [b"h", b"i"]), ("cdata:char[]", lambda ffi: ffi.new("char[]", b"xy")),
             ("cdata:unsigned char[]", lambda ffi: ffi.new("unsigned char[]", b"xy")), V("bytearray:hi", bytearray(b"hi")),
             ]
    for a in sargs:
        P.call("fp_first2", [a])
        P.call("fp_len", [a])
    for a in [V("None", None), V("int:0", 0), ("NULL", lambda ffi: ffi.NULL), V("bytes:x", b"x"), V("float:0.0", 0.0)]:
        P.call("fp_cisnull", [a])
    P.rec("call", "string(fp_hello())", lambda: ffi.string(P.lib.fp_hello()))
    P.rec("call", "typeof(fp_hello())", lambda: ffi.typeof(P.lib.fp_hello()))

    def vp_roundtrip():
        a = ffi.new("int[2]")
        r = P.lib.fp_vp(a)
        return [ffi.typeof(r), int(ffi.cast("uintptr_t", r)) == int(ffi.cast("uintptr_t", a))]
    P.rec("call", "fp_vp roundtrip", vp_roundtrip)
    for a in [("NULL", lambda ffi: ffi.NULL), V("int:0", 0), V("int:1", 1), V("None", None), V("bytes:ab", b"ab"),
              V("str:ab", "ab"), V("list:[1]", [1]), ("cdata:int[1]", lambda ffi: ffi.new("int[1]")),
              ("cdata:int 0", lambda ffi: ffi.cast("int", 0)), V("bytearray", bytearray(2))]:
        P.call("fp_vp", [a])
        P.call("fp_isnull", [a])
    for a in [("NULL", lambda ffi: ffi.NULL), ("cdata:int*[1]", lambda ffi: ffi.new("int *[1]")),
              ("cdata:int*", lambda ffi: ffi.new("int *")), V("list:[NULL-ish]", [0]), V("None", None)]:
        P.call("fp_pp", [a])


# =======================================================================================
# 4. structs by value and by pointer

@item("fstruct",
      "struct fs_pt { int x; short y; };\nstruct fs_pt fs_mk(int, int);\nint fs_sum(struct fs_pt);\n"
      "int fs_sump(struct fs_pt *);\nstruct fs_pt fs_neg(struct fs_pt);\nvoid fs_set(struct fs_pt *, int);\n"
      "int fs_isnull(struct fs_pt *);\n"
      "struct fs_big { long long a[5]; char c; };\nstruct fs_big fs_bigmk(int);\nlong long fs_bigsum(struct fs_big);\n",
      "struct fs_pt { int x; short y; };\nstruct fs_pt fs_mk(int a, int b) { struct fs_pt r; r.x = a; r.y = (short)b; return r; }\n"
      "int fs_sum(struct fs_pt p) { return p.x + p.y; }\nint fs_sump(struct fs_pt *p) { return p->x + p->y; }\n"
      "struct fs_pt fs_neg(struct fs_pt p) { p.x = -p.x; p.y = -p.y; return p; }\n"
      "void fs_set(struct fs_pt *p, int v) { p->x = v; p->y = (short)(v + 1); }\n"
      "int fs_isnull(struct fs_pt *p) { return p == 0; }\n"
      "struct fs_big { long long a[5]; char c; };\n"
      "struct fs_big fs_bigmk(int k) { struct fs_big r; int i; for (i = 0; i < 5; i++) r.a[i] = k * (i + 1); r.c = 'q'; return r; }\n"
      "long long fs_bigsum(struct fs_big b) { return b.a[0] + b.a[1] + b.a[2] + b.a[3] + b.a[4] + b.c; }\n",
      ["fs_mk", "fs_sum", "fs_sump", "fs_neg", "fs_set", "fs_isnull", "fs_bigmk", "fs_bigsum"])
def _p_fstruct(P):
    ffi = P.ffi
    P.exposed(ITEM["fstruct"]["names"])
    P.layout("struct fs_pt")
    P.layout("struct fs_big")
    for a, b in [(1, 2), (-5, 7), (2 ** 31 - 1, -2 ** 15), (0, 2 ** 15), (2 ** 31, 0)]:
        P.call("fs_mk", [V("int:%d" % a, a), V("int:%d" % b, b)])
    sargs = [("cdata:struct {3,4}", lambda ffi: ffi.new("struct fs_pt *", [3, 4])[0]),
             V("dict:{x:3,y:4}", {"x": 3, "y": 4}), V("list:[3,4]", [3, 4]),
             # partial initializers right after full ones: the unnamed fields are zero, not what an earlier call left
             V("list:[7]", [7]), V("dict:{y:9}", {"y": 9}), V("list:[]", []), V("dict:{}", {}),
             V("tuple:(30,40)", (30, 40)), V("tuple:(8,)", (8,)), V("dict:{x:6}", {"x": 6}),
             V("list:[1,2,3]", [1, 2, 3]), V("dict:{z:1}", {"z": 1}), V("dict:{x:2**40}", {"x": 2 ** 40}),
             V("list:[1,'a']", [1, "a"]), V("int:5", 5), V("None", None), V("str:ab", "ab"),
             ("cdata:struct fs_big", lambda ffi: ffi.new("struct fs_big *")[0]),
             ("cdata:struct fs_pt *", lambda ffi: ffi.new("struct fs_pt *", [3, 4]))]
    for a in sargs:
        P.call("fs_sum", [a])
        P.call("fs_neg", [a])
    pargs = [("cdata:struct fs_pt * {3,4}", lambda ffi: ffi.new("struct fs_pt *", [3, 4])),
             ("cdata:struct fs_pt[2]", lambda ffi: ffi.new("struct fs_pt[2]", [[5, 6], [7, 8]])),
             V("list:[[3,4]]", [[3, 4]]), V("list:[{x:9}]", [{"x": 9}]), V("dict:{x:3}", {"x": 3}), V("list:[3,4]", [3, 4]),
             ("NULL-free:cdata struct", lambda ffi: ffi.new("struct fs_pt *", [3, 4])[0]),
             ("cdata:struct fs_big *", lambda ffi: ffi.new("struct fs_big *")),
             ("cdata:void *", lambda ffi: ffi.cast("void *", ffi.new("struct fs_pt *", [1, 1])))]
    for a in pargs:
        P.call("fs_sump", [a])
    for a in [V("None", None), V("int:0", 0), ("NULL", lambda ffi: ffi.NULL), V("float:0.0", 0.0)]:
        P.call("fs_isnull", [a])

    def setit():
        p = ffi.new("struct fs_pt *")
        P.lib.fs_set(p, 41)
        return [p.x, p.y]
    P.rec("call", "fs_set(cdata)", setit)
    P.call("fs_bigmk", [V("int:3", 3)])
    P.rec("call", "fs_bigsum(fs_bigmk(2))", lambda: P.lib.fs_bigsum(P.lib.fs_bigmk(2)))
    P.call("fs_bigsum", [V("dict:{a:[1,2,3,4,5],c:b'A'}", {"a": [1, 2, 3, 4, 5], "c": b"A"})])
    P.call("fs_bigsum", [V("dict:{a:[1,2,3,4,5,6]}", {"a": [1, 2, 3, 4, 5, 6]})])
    P.call("fs_bigsum", [V("dict:{a:[7]}", {"a": [7]})])
    P.call("fs_bigsum", [V("dict:{c:b'B'}", {"c": b"B"})])
    P.call("fs_bigsum", [V("list:[]", [])])


# =======================================================================================
# 5. global variables of primitive type

_GV = [("i", "int", -12), ("uc", "unsigned char", 200), ("ll", "long long", -(2 ** 40)), ("us", "unsigned short", 7),
       ("ull", "unsigned long long", 2 ** 63 + 5), ("b", "_Bool", 1)]


@item("gint",
      "".join("extern %s gi_%s;\n%s gi_get_%s(void);\nvoid gi_set_%s(%s);\n" % (t, k, t, k, k, t) for k, t, v in _GV) +
      "extern double gi_d;\nextern float gi_f;\nextern char gi_c;\ndouble gi_get_d(void);\ndouble gi_get_f(void);\n"
      "int gi_get_c(void);\n",
      "".join("%s gi_%s = %s;\n%s gi_get_%s(void) { return gi_%s; }\nvoid gi_set_%s(%s v) { gi_%s = v; }\n" % (
          t, k, ("%dULL" % v if v > 2 ** 62 else "%dLL" % v), t, k, k, k, t, k) for k, t, v in _GV) +
      "double gi_d = 2.5;\nfloat gi_f = 0.25f;\nchar gi_c = 'c';\ndouble gi_get_d(void) { return gi_d; }\n"
      "double gi_get_f(void) { return gi_f; }\nint gi_get_c(void) { return gi_c; }\n",
      ["gi_" + k for k, t, v in _GV] + ["gi_d", "gi_f", "gi_c"])
def _p_gint(P):
    lib = P.lib
    P.exposed(ITEM["gint"]["names"])
    for k, t, v in _GV:
        name = "gi_" + k
        P.rec("global-read", name + " initial", lambda: getattr(lib, name))
        lo, hi = P.int_range(t)
        for a in int_args(lo, hi):
            def wr():
                setattr(lib, name, a[1](P.ffi))
                return [getattr(lib, name), getattr(lib, "gi_get_" + k)()]
            P.rec("global-write", "%s = %s" % (name, a[0]), wr)
        def cset():
            getattr(lib, "gi_set_" + k)(hi)
            return getattr(lib, name)
        P.rec("global-read", name + " after C store", cset)
    for name, getter in (("gi_d", "gi_get_d"), ("gi_f", "gi_get_f")):
        P.rec("global-read", name + " initial", lambda: getattr(lib, name))
        for a in FLOAT_ARGS:
            def wr():
                setattr(lib, name, a[1](P.ffi))
                return [getattr(lib, name), getattr(lib, getter)()]
            P.rec("global-write", "%s = %s" % (name, a[0]), wr)
    P.rec("global-read", "gi_c initial", lambda: lib.gi_c)
    for a in [V("bytes:z", b"z"), V("bytes:ff", b"\xff"), V("bytes:zz", b"zz"), V("str:z", "z"), V("int:65", 65),
              V("None", None)]:
        def wr():
            lib.gi_c = a[1](P.ffi)
            return [lib.gi_c, lib.gi_get_c()]
        P.rec("global-write", "gi_c = %s" % a[0], wr)
    P.rec("exposed", "undeclared name", lambda: getattr(lib, "gi_nonexistent"))


# =======================================================================================
# 6. global arrays

@item("garr",
      "extern int ga_a[4];\nextern short ga_dots[...];\nextern char ga_str[];\nextern unsigned char ga_2d[2][3];\n"
      "int ga_sum(void);\nint ga_dots_sum(void);\n",
      "int ga_a[4] = {1, 2, 3, 4};\nshort ga_dots[5] = {10, 20, 30, 40, 50};\nchar ga_str[] = \"text\";\n"
      "unsigned char ga_2d[2][3] = {{1, 2, 3}, {4, 5, 6}};\n"
      "int ga_sum(void) { return ga_a[0] + ga_a[1] + ga_a[2] + ga_a[3]; }\n"
      "int ga_dots_sum(void) { int i, s = 0; for (i = 0; i < 5; i++) s += ga_dots[i]; return s; }\n",
      ["ga_a", "ga_dots", "ga_str", "ga_2d", "ga_sum", "ga_dots_sum"])
def _p_garr(P):
    ffi, lib = P.ffi, P.lib
    P.exposed(ITEM["garr"]["names"])
    for n in ("ga_a", "ga_dots", "ga_str", "ga_2d"):
        P.rec("global-read", n + " type", lambda: ffi.typeof(getattr(lib, n)))
        P.rec("global-read", n + " value", lambda: getattr(lib, n))
        P.rec("global-read", n + " len", lambda: len(getattr(lib, n)))
        P.rec("global-read", n + " sizeof", lambda: ffi.sizeof(getattr(lib, n)))
    P.rec("global-read", "string(ga_str)", lambda: ffi.string(lib.ga_str))

    def w1():
        lib.ga_a[2] = 30
        return [list(lib.ga_a), lib.ga_sum()]
    P.rec("global-write", "ga_a[2] = 30", w1)
    P.rec("global-write", "ga_a[4] = 1", lambda: lib.ga_a.__setitem__(4, 1))
    P.rec("global-write", "ga_a[-1] = 1", lambda: lib.ga_a.__setitem__(-1, 1))
    P.rec("global-write", "ga_a[0] = 2**31", lambda: lib.ga_a.__setitem__(0, 2 ** 31))
    P.rec("global-read", "ga_dots[4]", lambda: lib.ga_dots[4])
    P.rec("global-read", "ga_dots[5]", lambda: lib.ga_dots[5])

    def w2():
        lib.ga_dots[0] = -1
        return lib.ga_dots_sum()
    P.rec("global-write", "ga_dots[0] = -1", w2)
    P.rec("global-read", "ga_2d[1][2]", lambda: lib.ga_2d[1][2])
    P.rec("global-read", "ga_2d[2]", lambda: lib.ga_2d[2])


# =======================================================================================
# 7. global pointers

@item("gptr",
      "struct gp_s { int v; };\nextern int *gp_p;\nextern char *gp_str;\nextern struct gp_s *gp_sp;\nextern void *gp_v;\n"
      "extern int gp_target;\nint gp_deref(void);\nint gp_same(void);\n",
      "struct gp_s { int v; };\nint gp_target = 77;\nint gp_other = 88;\nint *gp_p = &gp_target;\nchar *gp_str = \"lit\";\n"
      "static struct gp_s gp_the = { 9 };\nstruct gp_s *gp_sp = &gp_the;\nvoid *gp_v = 0;\n"
      "int gp_deref(void) { return gp_p ? *gp_p : -1; }\nint gp_same(void) { return gp_v == (void *)&gp_target; }\n",
      ["gp_p", "gp_str", "gp_sp", "gp_v", "gp_target", "gp_deref", "gp_same"])
def _p_gptr(P):
    ffi, lib = P.ffi, P.lib
    P.exposed(ITEM["gptr"]["names"])
    P.rec("global-read", "gp_p", lambda: [lib.gp_p, lib.gp_p[0]])
    P.rec("global-read", "gp_str", lambda: [lib.gp_str, ffi.string(lib.gp_str)])
    P.rec("global-read", "gp_sp", lambda: [lib.gp_sp, lib.gp_sp.v, lib.gp_sp[0]])
    P.rec("global-read", "gp_v", lambda: lib.gp_v)
    keep = []
    for a in [("NULL", lambda ffi: ffi.NULL), ("cdata:int* 5", lambda ffi: keep.append(ffi.new("int *", 5)) or keep[-1]),
              V("int:0", 0), V("None", None), V("list:[1]", [1]), ("cdata:short*", lambda ffi: ffi.new("short *")),
              ("cdata:void*", lambda ffi: ffi.cast("void *", 0)), V("bytes:ab", b"ab")]:
        def wr():
            lib.gp_p = a[1](ffi)
            return [lib.gp_p, lib.gp_deref()]
        P.rec("global-write", "gp_p = %s" % a[0], wr)

    def wv():
        lib.gp_v = lib.gp_sp
        lib.gp_v = ffi.cast("void *", ffi.cast("uintptr_t", 0))
        return lib.gp_v
    P.rec("global-write", "gp_v = any pointer", wv)
    for a in [V("bytes:ab", b"ab"), V("str:ab", "ab"), ("NULL", lambda ffi: ffi.NULL)]:
        P.rec("global-write", "gp_str = %s" % a[0], lambda: setattr(lib, "gp_str", a[1](ffi)))


# =======================================================================================
# 8. constants

@item("const",
      "static const int kc_i;\nstatic const unsigned long long kc_ull;\nstatic const long long kc_min;\n"
      "static const unsigned char kc_uc;\nstatic const double kc_d;\nstatic const float kc_f;\nstatic char *const kc_s;\n"
      "static const char kc_c;\nstatic const _Bool kc_b;\nstatic const long double kc_ld;\nstatic int *const kc_ip;\n"
      "struct kc_pt { int x; int y; };\nstatic const struct kc_pt kc_origin;\n",
      "static const int kc_i = -42;\nstatic const unsigned long long kc_ull = 18446744073709551615ULL;\n"
      "static const long long kc_min = (-9223372036854775807LL - 1);\nstatic const unsigned char kc_uc = 255;\n"
      "static const double kc_d = 0.1;\nstatic const float kc_f = 0.1f;\nstatic char *const kc_s = \"const str\";\n"
      "static const char kc_c = 'k';\nstatic const _Bool kc_b = 1;\nstatic const long double kc_ld = 1.25L;\n"
      "static int kc_cell = 5;\nstatic int *const kc_ip = &kc_cell;\n"
      "struct kc_pt { int x; int y; };\nstatic const struct kc_pt kc_origin = { 3, -4 };\n",
      ["kc_i", "kc_ull", "kc_min", "kc_uc", "kc_d", "kc_f", "kc_s", "kc_c", "kc_b", "kc_ld", "kc_ip", "kc_origin"])
def _p_const(P):
    ffi, lib = P.ffi, P.lib
    P.exposed(ITEM["const"]["names"])
    for n in ITEM["const"]["names"]:
        P.rec("constant", n, lambda: getattr(lib, n))
    P.rec("constant", "string(kc_s)", lambda: ffi.string(lib.kc_s))
    P.rec("constant", "kc_ip[0]", lambda: lib.kc_ip[0])


@item("define",
      "#define DF_A 42\n#define DF_ZERO 0\n#define DF_NEG -7\n#define DF_HEX 0xff\n#define DF_U32 4294967295\n"
      "#define DF_I64MAX 9223372036854775807\n#define DF_BIG 18446744073709551615\n#define DF_MIN -9223372036854775808\n"
      "#define DF_DOTS ...\n#define DF_DOTSNEG ...\n#define DF_DOTSBIG ...\n",
      "#define DF_A 42\n#define DF_ZERO 0\n#define DF_NEG (-7)\n#define DF_HEX 0xff\n#define DF_U32 4294967295U\n"
      "#define DF_I64MAX 9223372036854775807LL\n#define DF_BIG 18446744073709551615ULL\n"
      "#define DF_MIN (-9223372036854775807LL-1)\n#define DF_DOTS (1000*1000)\n#define DF_DOTSNEG (-5000000000LL)\n"
      "#define DF_DOTSBIG 0xFFFFFFFFFFFFFFF0ULL\n",
      ["DF_A", "DF_ZERO", "DF_NEG", "DF_HEX", "DF_U32", "DF_I64MAX", "DF_BIG", "DF_MIN", "DF_DOTS", "DF_DOTSNEG",
       "DF_DOTSBIG"])
def _p_define(P):
    P.exposed(ITEM["define"]["names"])
    for n in ITEM["define"]["names"]:
        P.rec("constant", n, lambda: getattr(P.lib, n))


# =======================================================================================
# 10/11. enums

@item("enum",
      "enum en_color { EN_RED, EN_GREEN = 5, EN_BLUE };\nenum en_color en_next(enum en_color);\nint en_val(enum en_color);\n"
      "extern enum en_color en_g;\nstruct en_s { enum en_color c; char k; };\n",
      "enum en_color { EN_RED, EN_GREEN = 5, EN_BLUE };\n"
      "enum en_color en_next(enum en_color c) { return c == EN_RED ? EN_GREEN : c == EN_GREEN ? EN_BLUE : EN_RED; }\n"
      "int en_val(enum en_color c) { return (int)c; }\nenum en_color en_g = EN_BLUE;\n"
      "struct en_s { enum en_color c; char k; };\n",
      ["EN_RED", "EN_GREEN", "EN_BLUE", "en_next", "en_val", "en_g"])
def _p_enum(P):
    ffi, lib = P.ffi, P.lib
    P.exposed(ITEM["enum"]["names"])
    for n in ("EN_RED", "EN_GREEN", "EN_BLUE"):
        P.rec("constant", n, lambda: getattr(lib, n))
    P.layout("enum en_color", fields=False)
    P.layout("struct en_s")
    P.rec("layout", "enum en_color elements", lambda: sorted(ffi.typeof("enum en_color").relements.items()))
    P.rec("layout", "cast -1", lambda: ffi.cast("enum en_color", -1))
    for a in [V("int:0", 0), V("int:5", 5), V("int:6", 6), V("int:7", 7), V("int:-1", -1), V("int:2**31", 2 ** 31),
              V("int:2**32-1", 2 ** 32 - 1), V("int:2**32", 2 ** 32), V("int:-2**31-1", -2 ** 31 - 1), V("str:EN_RED", "EN_RED"),
              V("str:x", "x"), V("float:1.0", 1.0), V("None", None), V("bool:True", True),
              ("cdata:enum 5", lambda ffi: ffi.cast("enum en_color", 5)), ("cdata:int 5", lambda ffi: ffi.cast("int", 5))]:
        P.call("en_next", [a])
        P.call("en_val", [a])
    P.rec("global-read", "en_g", lambda: lib.en_g)
    for v in (0, 5, 99, -1, 2 ** 32, "EN_RED"):
        def wr():
            lib.en_g = v
            return lib.en_g
        P.rec("global-write", "en_g = %r" % (v,), wr)


@item("enum2",
      "typedef enum { E2_A = -1, E2_B = 1, ... } e2_t;\nenum e2_big { E2_BIG = 4294967295 };\nenum { E2_ANON = 9 };\n"
      "enum e2_part { E2_P1, E2_P2, ... };\nenum e2_huge { E2_H = 9223372036854775807, E2_HN = -1 };\n"
      "e2_t e2_id(e2_t);\nenum e2_big e2_bigid(enum e2_big);\nenum e2_huge e2_hugeid(enum e2_huge);\n"
      "enum e2_mix { E2_MN = -1, E2_MZ, E2_MT = 0x80000000 };\nenum e2_mix e2_mixid(enum e2_mix);\n"
      "enum e2_mix2 { E2_NN = -2147483648, E2_NT = 4294967295 };\nstruct e2_s { char c; enum e2_mix m; };\n",
      "typedef enum { E2_A = -1, E2_B = 1, E2_C = 2 } e2_t;\nenum e2_big { E2_BIG = 4294967295U };\nenum { E2_ANON = 9 };\n"
      "enum e2_part { E2_P0, E2_P1 = 10, E2_P2 = 20 };\nenum e2_huge { E2_H = 9223372036854775807LL, E2_HN = -1 };\n"
      "e2_t e2_id(e2_t x) { return x; }\nenum e2_big e2_bigid(enum e2_big x) { return x; }\n"
      "enum e2_huge e2_hugeid(enum e2_huge x) { return x; }\n"
      "enum e2_mix { E2_MN = -1, E2_MZ, E2_MT = 0x80000000 };\nenum e2_mix e2_mixid(enum e2_mix x) { return x; }\n"
      "enum e2_mix2 { E2_NN = -2147483648, E2_NT = 4294967295 };\nstruct e2_s { char c; enum e2_mix m; };\n",
      ["E2_A", "E2_B", "E2_BIG", "E2_ANON", "E2_P1", "E2_P2", "E2_H", "E2_HN", "E2_MN", "E2_MZ", "E2_MT", "E2_NN", "E2_NT",
       "e2_id", "e2_bigid", "e2_hugeid", "e2_mixid"])
def _p_enum2(P):
    ffi, lib = P.ffi, P.lib
    P.exposed(ITEM["enum2"]["names"])
    for n in ("E2_A", "E2_B", "E2_BIG", "E2_ANON", "E2_P1", "E2_P2", "E2_H", "E2_HN", "E2_MN", "E2_MZ", "E2_MT", "E2_NN", "E2_NT"):
        P.rec("constant", n, lambda: getattr(lib, n))
    P.layout("struct e2_s")
    for T in ("e2_t", "enum e2_big", "enum e2_part", "enum e2_huge", "enum e2_mix", "enum e2_mix2"):
        P.layout(T, fields=False)
        P.rec("layout", T + " elements", lambda: sorted(ffi.typeof(T).relements.items()))
        P.rec("layout", T + " cast -1", lambda: ffi.cast(T, -1))
    for v in (-1, 0, 1, 2, 2 ** 31 - 1, 2 ** 31, 2 ** 32 - 1, 2 ** 32, -2 ** 31, -2 ** 31 - 1, 2 ** 63 - 1, 2 ** 63, -2 ** 63, "E2_A",
              None, 1.0):
        a = V("%s:%r" % (type(v).__name__, v), v)
        P.call("e2_id", [a])
        P.call("e2_bigid", [a])
        P.call("e2_hugeid", [a])
        P.call("e2_mixid", [a])


# =======================================================================================
# 12-14. layouts: full structs, partial structs, unions

@item("struct",
      "struct st_lay { char a; long long b; short c[3]; int bf:5; unsigned int bg:3; double d; };\n"
      "struct st_nest { char x; struct st_lay in; struct st_lay *p; };\n"
      "typedef struct { signed char a; void *p; float f; } st_anon_t;\n"
      "struct st_lay *st_get(void);\nlong long st_read_b(struct st_lay *);\nint st_read_bf(struct st_lay *);\n"
      "int st_anon_a(st_anon_t *);\n",
      "struct st_lay { char a; long long b; short c[3]; int bf:5; unsigned int bg:3; double d; };\n"
      "struct st_nest { char x; struct st_lay in; struct st_lay *p; };\n"
      "typedef struct { signed char a; void *p; float f; } st_anon_t;\n"
      "static struct st_lay st_the = { 'a', -5, {1, 2, 3}, -3, 6, 2.5 };\n"
      "struct st_lay *st_get(void) { return &st_the; }\nlong long st_read_b(struct st_lay *p) { return p->b; }\n"
      "int st_read_bf(struct st_lay *p) { return p->bf * 100 + (int)p->bg; }\nint st_anon_a(st_anon_t *p) { return p->a; }\n",
      ["st_get", "st_read_b", "st_read_bf", "st_anon_a"])
def _p_struct(P):
    ffi, lib = P.ffi, P.lib
    P.exposed(ITEM["struct"]["names"])
    for T in ("struct st_lay", "struct st_nest", "st_anon_t"):
        P.layout(T)
    for f in ("a", "b", "c", "d"):
        P.rec("layout", "offsetof st_lay." + f, lambda: ffi.offsetof("struct st_lay", f))
    P.rec("layout", "offsetof st_lay.bf", lambda: ffi.offsetof("struct st_lay", "bf"))
    P.rec("layout", "offsetof st_nest.in.d", lambda: ffi.offsetof("struct st_nest", "in", "d"))
    P.rec("call", "st_get()[0]", lambda: lib.st_get()[0])

    def rw():
        p = ffi.new("struct st_lay *")
        p.b = -2 ** 63
        p.bf = -16
        p.bg = 7
        p.c = [7, 8, 9]
        return [lib.st_read_b(p), lib.st_read_bf(p), p[0]]
    P.rec("call", "write fields then C reads", rw)
    for v in (15, 16, -16, -17):
        P.rec("layout", "st_lay.bf = %d" % v, lambda: setattr(ffi.new("struct st_lay *"), "bf", v))
    P.rec("call", "st_anon_a({a:-7})", lambda: lib.st_anon_a(ffi.new("st_anon_t *", {"a": -7})))
    P.rec("layout", "new st_nest init", lambda: ffi.new("struct st_nest *", {"x": b"x", "in": {"b": 4, "c": [1, 2, 3]}})[0])


@item("partial",
      "struct pa_s { int b; char a; ...; };\ntypedef struct { short z; ...; } pa_t;\n"
      "struct pa_arr { int n; char name[...]; ...; };\nstruct pa_nest { struct pa_s in; ...; };\n"
      "int pa_get_b(struct pa_s *);\nvoid pa_fill(struct pa_s *);\nint pa_z(pa_t *);\nstruct pa_s pa_mk(int);\n"
      "int pa_namelen(struct pa_arr *);\n",
      "struct pa_s { char a; double hidden; int b; char tail[3]; };\ntypedef struct { long long q; short z; } pa_t;\n"
      "struct pa_arr { char pad; int n; char name[12]; };\nstruct pa_nest { char first; struct pa_s in; };\n"
      "int pa_get_b(struct pa_s *p) { return p->b; }\n"
      "void pa_fill(struct pa_s *p) { p->a = 'A'; p->hidden = 1.5; p->b = 1234; p->tail[2] = 'z'; }\n"
      "int pa_z(pa_t *p) { return p->z; }\n"
      "struct pa_s pa_mk(int v) { struct pa_s r; memset(&r, 0, sizeof r); r.b = v; r.a = 'm'; return r; }\n"
      "int pa_namelen(struct pa_arr *p) { return (int)sizeof(p->name) + p->n; }\n",
      ["pa_get_b", "pa_fill", "pa_z", "pa_mk", "pa_namelen"])
def _p_partial(P):
    ffi, lib = P.ffi, P.lib
    P.exposed(ITEM["partial"]["names"])
    for T in ("struct pa_s", "pa_t", "struct pa_arr", "struct pa_nest"):
        P.layout(T)

    def fill():
        p = ffi.new("struct pa_s *")
        lib.pa_fill(p)
        return [p.a, p.b, lib.pa_get_b(p), bytes(ffi.buffer(p))[-1:] != b""]
    P.rec("call", "pa_fill", fill)
    P.rec("call", "pa_z", lambda: lib.pa_z(ffi.new("pa_t *", {"z": -9})))
    P.rec("call", "pa_mk(77)", lambda: lib.pa_mk(77))
    P.rec("call", "pa_get_b(list)", lambda: lib.pa_get_b([[5, b"c"]]))
    P.rec("call", "pa_namelen", lambda: lib.pa_namelen(ffi.new("struct pa_arr *", {"n": 3})))
    P.rec("layout", "len(pa_arr.name)", lambda: len(ffi.new("struct pa_arr *").name))
    P.rec("layout", "pa_s.hidden", lambda: ffi.new("struct pa_s *").hidden)


@item("union",
      "union un_u { int i; double d; char c[3]; };\nunion un_u un_mk(int);\nint un_geti(union un_u);\n"
      "double un_getd(union un_u *);\nstruct un_holder { char tag; union un_u u; };\n",
      "union un_u { int i; double d; char c[3]; };\nunion un_u un_mk(int v) { union un_u r; r.d = 0; r.i = v; return r; }\n"
      "int un_geti(union un_u u) { return u.i; }\ndouble un_getd(union un_u *u) { return u->d; }\n"
      "struct un_holder { char tag; union un_u u; };\n",
      ["un_mk", "un_geti", "un_getd"])
def _p_union(P):
    ffi, lib = P.ffi, P.lib
    P.exposed(ITEM["union"]["names"])
    P.layout("union un_u")
    P.layout("struct un_holder")
    P.call("un_mk", [V("int:258", 258)])
    for a in [("cdata:union {i:7}", lambda ffi: ffi.new("union un_u *", {"i": 7})[0]), V("dict:{i:7}", {"i": 7}),
              V("dict:{d:1.5}", {"d": 1.5}), V("list:[9]", [9]), V("list:[1,2]", [1, 2]), V("dict:{i:1,d:2.0}", {"i": 1, "d": 2.0}),
              V("int:3", 3), V("None", None)]:
        P.call("un_geti", [a])
    P.rec("call", "un_getd", lambda: lib.un_getd(ffi.new("union un_u *", {"d": 0.1})))


# =======================================================================================
# 15-19. typedefs, function pointers, variadic, opaque, mixed signatures

@item("typedef",
      "typedef int td_int;\ntypedef td_int *td_intp;\ntypedef struct td_s { td_int v; } td_s_t;\ntypedef td_s_t *td_sp;\n"
      "typedef unsigned char td_bytes[4];\ntypedef td_int (*td_fn)(td_int);\n"
      "td_int td_f(td_intp);\ntd_int td_g(td_sp);\nint td_sumb(td_bytes);\ntd_int td_call(td_fn, td_int);\ntd_int td_inc(td_int);\n"
      "extern td_bytes td_gb;\n",
      "typedef int td_int;\ntypedef td_int *td_intp;\ntypedef struct td_s { td_int v; } td_s_t;\ntypedef td_s_t *td_sp;\n"
      "typedef unsigned char td_bytes[4];\ntypedef td_int (*td_fn)(td_int);\n"
      "td_int td_f(td_intp p) { return *p + 1; }\ntd_int td_g(td_sp p) { return p->v * 2; }\n"
      "int td_sumb(td_bytes b) { return b[0] + b[1] + b[2] + b[3]; }\ntd_int td_call(td_fn f, td_int x) { return f(x); }\n"
      "td_int td_inc(td_int x) { return x + 1; }\ntd_bytes td_gb = {9, 8, 7, 6};\n",
      ["td_f", "td_g", "td_sumb", "td_call", "td_inc", "td_gb"])
def _p_typedef(P):
    ffi, lib = P.ffi, P.lib
    P.exposed(ITEM["typedef"]["names"])
    for T in ("td_int", "td_intp", "td_s_t", "td_sp", "td_bytes", "td_fn"):
        P.rec("layout", "typeof " + T, lambda: ffi.typeof(T))
        P.rec("layout", "sizeof " + T, lambda: ffi.sizeof(T))
    P.rec("call", "td_f(new td_int*)", lambda: lib.td_f(ffi.new("td_int *", 4)))
    P.rec("call", "td_f([4])", lambda: lib.td_f([4]))
    P.rec("call", "td_g(new td_s_t*)", lambda: lib.td_g(ffi.new("td_s_t *", [21])))
    P.rec("call", "td_g(struct td_s*)", lambda: lib.td_g(ffi.new("struct td_s *", [21])))
    P.rec("call", "td_sumb(list)", lambda: lib.td_sumb([1, 2, 3, 4]))
    P.rec("call", "td_sumb(bytes)", lambda: lib.td_sumb(b"\x01\x02\x03\x04"))
    P.rec("call", "td_sumb(td_gb)", lambda: lib.td_sumb(lib.td_gb))
    P.rec("call", "td_sumb(list of 5)", lambda: lib.td_sumb([1, 2, 3, 4, 5]))
    P.rec("call", "td_sumb([256,0,0,0])", lambda: lib.td_sumb([256, 0, 0, 0]))
    P.rec("global-read", "td_gb", lambda: [ffi.typeof(lib.td_gb), list(lib.td_gb)])
    P.rec("call", "td_call(callback)", lambda: lib.td_call(ffi.callback("td_fn", lambda x: x * 3), 5))
    P.rec("call", "td_call(None)", lambda: lib.td_call(None, 5))
    P.rec("call", "td_call(python function)", lambda: lib.td_call(lambda x: x, 5))


@item("fnptr",
      "extern int (*fn_g)(int);\nint fn_apply(int (*)(int), int);\nint (*fn_get(int))(int);\nint fn_call_g(int);\n"
      "struct fn_ops { int (*op)(int); int k; };\nint fn_run(struct fn_ops *);\ndouble (*fn_getd(void))(double, float);\n",
      "static int fn_twice(int x) { return 2 * x; }\nstatic int fn_neg(int x) { return -x; }\n"
      "int (*fn_g)(int) = fn_twice;\nint fn_apply(int (*f)(int), int x) { return f(x); }\n"
      "int (*fn_get(int w))(int) { return w ? fn_neg : fn_twice; }\nint fn_call_g(int x) { return fn_g ? fn_g(x) : -1; }\n"
      "struct fn_ops { int (*op)(int); int k; };\nint fn_run(struct fn_ops *o) { return o->op(o->k); }\n"
      "static double fn_mix(double a, float b) { return a * b; }\ndouble (*fn_getd(void))(double, float) { return fn_mix; }\n",
      ["fn_g", "fn_apply", "fn_get", "fn_call_g", "fn_run", "fn_getd"])
def _p_fnptr(P):
    ffi, lib = P.ffi, P.lib
    P.exposed(ITEM["fnptr"]["names"])
    P.rec("global-read", "fn_g", lambda: [ffi.typeof(lib.fn_g), lib.fn_g(21)])
    P.rec("call", "fn_get(0)(4)", lambda: [ffi.typeof(lib.fn_get(0)), lib.fn_get(0)(4), lib.fn_get(1)(4)])
    P.rec("call", "fn_apply(fn_get(1), 9)", lambda: lib.fn_apply(lib.fn_get(1), 9))
    keep = []

    def cb(f):
        c = ffi.callback("int(int)", f)
        keep.append(c)
        return c
    P.rec("call", "fn_apply(callback)", lambda: lib.fn_apply(cb(lambda x: x + 100), 1))
    P.rec("call", "fn_apply(callback raising)", lambda: lib.fn_apply(ffi.callback("int(int)", lambda x: 1 // 0, error=-7,
                                                                                     onerror=lambda *a: None), 1))
    # only arguments that no builder may accept (a bogus accepted pointer would be called)
    for a in [V("None", None), V("str:f", "f"), V("float:1.0", 1.0), ("cdata:int*", lambda ffi: ffi.new("int *")),
              ("cdata:struct fn_ops*", lambda ffi: ffi.new("struct fn_ops *"))]:
        P.call("fn_apply", [a, V("int:1", 1)])

    def setg():
        lib.fn_g = cb(lambda x: x - 1)
        r = [lib.fn_call_g(10), lib.fn_g(10)]
        lib.fn_g = lib.fn_get(0)
        return r + [lib.fn_call_g(10)]
    P.rec("global-write", "fn_g = callback", setg)
    P.rec("global-write", "fn_g = 5", lambda: setattr(lib, "fn_g", 5))
    P.rec("call", "fn_run", lambda: lib.fn_run(ffi.new("struct fn_ops *", {"op": lib.fn_get(1), "k": 6})))
    P.layout("struct fn_ops")
    P.rec("call", "fn_getd()(1.5, 0.1)", lambda: lib.fn_getd()(1.5, 0.1))
    P.rec("call", "fn_getd()(1.5, 'x')", lambda: lib.fn_getd()(1.5, "x"))


@item("variadic",
      "int va_sum(int n, ...);\ndouble va_avg(int n, ...);\nlong long va_ll(int n, ...);\nint va_strs(const char *fmt, ...);\n",
      "int va_sum(int n, ...) { va_list ap; int s = 0; va_start(ap, n); while (n-- > 0) s += va_arg(ap, int); va_end(ap); return s; }\n"
      "double va_avg(int n, ...) { va_list ap; double s = 0; int k = n; va_start(ap, n); while (k-- > 0) s += va_arg(ap, double);"
      " va_end(ap); return n ? s / n : 0; }\n"
      "long long va_ll(int n, ...) { va_list ap; long long s = 0; va_start(ap, n); while (n-- > 0) s += va_arg(ap, long long);"
      " va_end(ap); return s; }\n"
      "int va_strs(const char *fmt, ...) { va_list ap; int s = 0; va_start(ap, fmt); for (; *fmt; fmt++) {"
      " if (*fmt == 's') s += (int)strlen(va_arg(ap, char *)); else s += va_arg(ap, int); } va_end(ap); return s; }\n",
      ["va_sum", "va_avg", "va_ll", "va_strs"])
def _p_variadic(P):
    ffi, lib = P.ffi, P.lib
    P.exposed(ITEM["variadic"]["names"])
    ci = lambda v: ffi.cast("int", v)
    P.rec("call", "va_sum(0)", lambda: lib.va_sum(0))
    P.rec("call", "va_sum(3, cdata ints)", lambda: lib.va_sum(3, ci(1), ci(-2), ci(30)))
    P.rec("call", "va_sum(2, python ints)", lambda: lib.va_sum(2, 5, 6))
    P.rec("call", "va_sum(1, 2**31)", lambda: lib.va_sum(1, 2 ** 31))
    P.rec("call", "va_sum(1, 2**64)", lambda: lib.va_sum(1, 2 ** 64))
    P.rec("call", "va_sum(1, short cdata)", lambda: lib.va_sum(1, ffi.cast("short", -3)))
    P.rec("call", "va_sum(1, 'x')", lambda: lib.va_sum(1, "x"))
    P.rec("call", "va_sum(1, None)", lambda: lib.va_sum(1, None))
    P.rec("call", "va_sum(1, [1])", lambda: lib.va_sum(1, [1]))
    P.rec("call", "va_sum()", lambda: lib.va_sum())
    P.rec("call", "va_sum('a')", lambda: lib.va_sum("a"))
    P.rec("call", "va_avg(2, floats)", lambda: lib.va_avg(2, 1.5, 2.5))
    P.rec("call", "va_avg(2, cdata double)", lambda: lib.va_avg(2, ffi.cast("double", 0.5), ffi.cast("double", 0.25)))
    P.rec("call", "va_ll(2, cdata ll)", lambda: lib.va_ll(2, ffi.cast("long long", 2 ** 40), ffi.cast("long long", -1)))
    P.rec("call", "va_ll(1, 2**40 python)", lambda: lib.va_ll(1, 2 ** 40))
    P.rec("call", "va_strs", lambda: lib.va_strs(b"sis", ffi.new("char[]", b"abc"), ci(10), ffi.new("char[]", b"de")))
    P.rec("call", "va_strs(bytes arg)", lambda: lib.va_strs(b"s", b"abcd"))
    P.rec("call", "typeof va_sum", lambda: ffi.typeof(lib.va_sum))


@item("opaque",
      "typedef ... op_t;\nstruct op_fwd;\nop_t *op_new(int);\nint op_get(op_t *);\nstruct op_fwd *op_fwd_get(void);\n"
      "int op_fwd_val(struct op_fwd *);\ntypedef struct op_fwd op_fwd_t;\nint op_fwd_val2(op_fwd_t *);\n",
      "typedef struct { int secret; } op_t;\nstruct op_fwd { int v; };\nstatic op_t op_cells[4];\n"
      "op_t *op_new(int v) { op_cells[v & 3].secret = v; return &op_cells[v & 3]; }\nint op_get(op_t *p) { return p->secret; }\n"
      "static struct op_fwd op_the = { 31 };\nstruct op_fwd *op_fwd_get(void) { return &op_the; }\n"
      "int op_fwd_val(struct op_fwd *p) { return p->v; }\ntypedef struct op_fwd op_fwd_t;\nint op_fwd_val2(op_fwd_t *p) { return p->v; }\n",
      ["op_new", "op_get", "op_fwd_get", "op_fwd_val", "op_fwd_val2"])
def _p_opaque(P):
    ffi, lib = P.ffi, P.lib
    P.exposed(ITEM["opaque"]["names"])
    P.rec("call", "op_get(op_new(6))", lambda: [lib.op_new(6), lib.op_get(lib.op_new(6))])
    P.rec("call", "op_fwd_val(op_fwd_get())", lambda: [lib.op_fwd_get(), lib.op_fwd_val(lib.op_fwd_get()),
                                                       lib.op_fwd_val2(lib.op_fwd_get())])
    P.rec("layout", "sizeof op_t", lambda: ffi.sizeof("op_t"))
    P.rec("layout", "sizeof struct op_fwd", lambda: ffi.sizeof("struct op_fwd"))
    P.rec("layout", "new op_t*", lambda: ffi.new("op_t *"))
    P.rec("layout", "op_new(1)[0]", lambda: lib.op_new(1)[0])
    P.rec("call", "op_get(op_fwd_get())", lambda: lib.op_get(lib.op_fwd_get()))
    P.rec("call", "op_get(void*)", lambda: lib.op_get(ffi.cast("void *", lib.op_new(2))))


@item("misc",
      "void mx_void(void);\nint mx_count(void);\n"
      "long long mx_seven(signed char, unsigned short, int, long long, float, double, char *);\n"
      "unsigned int mx_u(unsigned int, unsigned int);\nint mx_noproto();\nsize_t mx_size(size_t);\nssize_t mx_ssize(ssize_t);\n"
      "int8_t mx_i8(int8_t);\nuint64_t mx_u64(uint64_t);\nintptr_t mx_iptr(intptr_t);\n",
      "static int mx_n;\nvoid mx_void(void) { mx_n++; }\nint mx_count(void) { return mx_n; }\n"
      "long long mx_seven(signed char a, unsigned short b, int c, long long d, float e, double f, char *g)"
      " { return a + b + c + d + (long long)(e * 2) + (long long)(f * 4) + g[0]; }\n"
      "unsigned int mx_u(unsigned int a, unsigned int b) { return a + b; }\nint mx_noproto() { return 17; }\n"
      "size_t mx_size(size_t x) { return x; }\nssize_t mx_ssize(ssize_t x) { return x; }\nint8_t mx_i8(int8_t x) { return x; }\n"
      "uint64_t mx_u64(uint64_t x) { return x; }\nintptr_t mx_iptr(intptr_t x) { return x; }\n",
      ["mx_void", "mx_count", "mx_seven", "mx_u", "mx_noproto", "mx_size", "mx_ssize", "mx_i8", "mx_u64", "mx_iptr"])
def _p_misc(P):
    ffi, lib = P.ffi, P.lib
    P.exposed(ITEM["misc"]["names"])
    P.rec("call", "mx_void x2, mx_count", lambda: [lib.mx_void(), lib.mx_void(), lib.mx_count()])
    P.rec("call", "mx_void(1)", lambda: lib.mx_void(1))
    P.rec("call", "mx_seven ok", lambda: lib.mx_seven(-1, 65535, -2 ** 31, 2 ** 40, 0.5, 0.25, b"A"))
    bad = [(-129, 0, 0, 0, 0.0, 0.0, b"A"), (0, 65536, 0, 0, 0.0, 0.0, b"A"), (0, 0, 2 ** 31, 0, 0.0, 0.0, b"A"),
           (0, 0, 0, 2 ** 63, 0.0, 0.0, b"A"), (0, 0, 0, 0, "e", 0.0, b"A"), (0, 0, 0, 0, 0.0, None, b"A"),
           (0, 0, 0, 0, 0.0, 0.0, "A"), (0, 0, 0, 0, 0.0, 0.0), (0, 0, 0, 0, 0.0, 0.0, b"A", 1)]
    for i, t in enumerate(bad):
        P.rec("call", "mx_seven bad#%d" % i, lambda: lib.mx_seven(*t))
    P.rec("call", "mx_u wrap", lambda: lib.mx_u(2 ** 32 - 1, 2))
    P.rec("call", "mx_noproto()", lambda: lib.mx_noproto())
    for f, t in (("mx_size", "unsigned long"), ("mx_ssize", "long"), ("mx_i8", "signed char"),
                 ("mx_u64", "unsigned long long"), ("mx_iptr", "long")):
        lo, hi = P.int_range(t)
        for v in (lo - 1, lo, hi, hi + 1):
            P.call(f, [V("int:%d" % v, v)])


# by-value struct/union parameters (used to classify a difference by its input class)
_AGG_BYVALUE = ("fs_sum(", "fs_neg(", "fs_bigsum(", "un_geti(")


def sig_class(label):
    """Input class of a probe, for the violation signature (item, or a finer class where several
    items exercise the same argument path)."""
    item, kind, detail = (label.split("|") + ["", ""])[:3]
    if kind == "call" and detail.startswith(_AGG_BYVALUE):
        arg = detail[detail.index("(") + 1:].split(":")[0].rstrip(")")
        return "by-value-aggregate-arg:" + arg
    return item
