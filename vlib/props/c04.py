"""C04 -- ffi.cast() to integer and character types follows the C conversion rules.

E1: every integer / character type x every source kind of the statement (Python
ints of any magnitude, finite floats, bools, all 256 one-byte bytes, one-character
str, pointer / array / function cdata at chosen and at real addresses) x a
boundary-complete value set.

Oracle: a three-line Python reference (truncate toward zero, reduce modulo
2**(8*sizeof T) into T's range, non-zeroness for _Bool) and, wherever C itself
defines the conversion, the conversion compiled by gcc and called through
ctypes; the two must agree with each other (otherwise the harness is wrong) and
cffi must agree with both.  Any exception is a violation ("succeeds").
"""
import contextlib
import ctypes
import importlib.util
import io
import math
import os
import sys

from .. import build, cref, pool
from ..build import InfraError
from . import c03 as _c03

ID = "C04"
LEVEL = "exploration"
META = dict(
    engine="E1-enum", level="exploration",
    technique="exhaustive enumeration of target type x source kind x boundary value set against a reference of the C "
              "conversion and the gcc-compiled conversion",
    text="ffi.cast(T, x) for all 68 integer/character target types (10 standard, _Bool, 31 <stdint.h>/<stddef.h> names, 4 "
         "enums, char, wchar_t, char16_t, char32_t, 6 typedef names incl. anonymous enums, and 12 API-mode-only types "
         "whose size and signedness come from the C compiler: 8 'typedef int... T' and 4 partial enums) x {ints: "
         "B(T)+B(long long)+B(unsigned long long) up to 2^128 and "
         "10^30, with the target given as a ctype object and by name on an in-line, an out-of-line ABI and a compiled "
         "API-mode FFI; finite floats around every power of two that matters, +-0.5, 0.999.., 1e300, denormals; bools; all 256 "
         "bytes; one-character str incl. surrogates and U+10FFFF; pointer, array and function cdata at 7 synthetic and "
         "20 real addresses (owning, open-length and from_buffer arrays, ffi.gc, new_handle, addressof, pointers read "
         "from memory, NULL, callbacks, functions of in-line and compiled libraries)}: never raises, int() and the bytes "
         "the result stores equal the reference and the gcc result; pointer -> "
         "intptr_t/uintptr_t -> pointer returns the same address (observed by a C function through ctypes).",
    note="gcc 12 on this machine; conversions that are undefined in C (float outside the target range) are judged by the "
         "statement's modulo rule only; plain 'char' is judged as cffi defines it, a byte 0..255")

CHARS = ["char", "wchar_t", "char16_t", "char32_t"]

# typedef names (in-line cdef; the C side has the same text): the target is reached through a typedef / an
# anonymous enum instead of a primitive name
TYPEDEFS = {
    "c04_us_t": "typedef unsigned short c04_us_t;",
    "c04_l_t": "typedef long c04_l_t;",
    "c04_i8_t": "typedef int8_t c04_i8_t;",
    "c04_bool_t": "typedef _Bool c04_bool_t;",
    "c04_e_t": "typedef enum { C04E_A = -1, C04E_B = 5 } c04_e_t;",
    "c04_eu8_t": "typedef enum { C04EU_A, C04EU_B = 0x100000000 } c04_eu8_t;",
}
BOOLS = ("_Bool", "c04_bool_t")
APIDEFS = _c03.APIDEFS          # API-mode-only targets: 8 'typedef int... T', 4 partial enums (see c03.py)
STRUCT = "struct c04_s { int a; int (*fn)(int); void *p; };"
HEADERS = _c03.HEADERS + "#include <wchar.h>\n#include <uchar.h>\n"

ADDRS = [0, 1, 1 << 31, 1 << 32, (1 << 47) - 1, 1 << 63, (1 << 64) - 1]

STRS = [chr(c) for c in (0x00, 0x01, 0x41, 0x7F, 0x80, 0xFF, 0x100, 0xD7FF, 0xD800, 0xDFFF, 0xE000, 0xFFFF,
                         0x10000, 0x10FFFF)]


def ident(t):
    return t.replace(" ", "_")


def c_type_of(t):
    return "unsigned char" if t == "char" else t


def c_defs():
    """C text of every non-primitive target type."""
    return (_c03.c_defs(sorted(_c03.ENUMS) + sorted(APIDEFS)) + "".join(TYPEDEFS[t] + "\n" for t in sorted(TYPEDEFS)))


def types_and_facts():
    ints = _c03.all_types()
    api = _c03.api_only_types()
    facts = _c03.measure(ints + api)
    # character types and typedef names: measured by gcc, except that cffi's 'char' is a byte 0..255 by definition
    src = HEADERS + "#include <stdio.h>\n" + "".join(TYPEDEFS[t] + "\n" for t in sorted(TYPEDEFS))
    src += "int main(void){\n"
    for t in CHARS[1:] + sorted(TYPEDEFS):
        src += 'printf("%%s|%%d|%%d\\n", "%s", (int)sizeof(%s), (int)(((%s)-1) < (%s)0));\n' % (t, t, t, t)
    src += "return 0;}\n"
    for line in cref.run_c(src).splitlines():
        n, s, sg = line.split("|")
        facts[n] = (int(s), bool(int(sg)))
    facts["char"] = (1, False)
    return ints + CHARS + sorted(TYPEDEFS) + api, facts


def ref_source(types, facts):
    out = [HEADERS, c_defs()]
    for t in types:
        size, sg = facts[t]
        w = "long long" if sg else "unsigned long long"
        out.append("%(w)s from_s_%(i)s(long long x) { return (%(w)s)(%(c)s)x; }\n"
                   "%(w)s from_u_%(i)s(unsigned long long x) { return (%(w)s)(%(c)s)x; }\n"
                   "%(w)s from_d_%(i)s(double x) { return (%(w)s)(%(c)s)x; }\n" % dict(w=w, i=ident(t), c=c_type_of(t)))
    out.append("unsigned long long rec_ptr;\nvoid take_ptr(void *p) { rec_ptr = (unsigned long long)p; }\n"
               "int some_function(int x) { return x + 1; }\nint some_array[4];\n")
    return "".join(out)


def float_values(quick):
    vals = {0.0, -0.0, 0.5, 0.9999999999999999, 1.0, 1.5, 2.5, 1e300, 5e-324, 2.2250738585072014e-308,
            1.7976931348623157e308, 1e-300, 3.999999999999999, 1e15 + 0.5, 4503599627370495.5}
    ks = (7, 8, 15, 16, 31, 32, 52, 53, 63, 64, 100) if quick else range(0, 1024)
    for k in ks:
        p = math.ldexp(1.0, k)
        for x in (p - 1, p, p + 1, math.nextafter(p, 0.0), math.nextafter(p, math.inf),
                  p - 0.5, p + 0.5, p - 1.5, p + 1.5, math.nextafter(p + 1, math.inf), math.nextafter(p - 1, 0.0)):
            vals.add(x)
    if not quick:
        for k in range(1, 1075):
            vals.add(math.ldexp(1.0, -k))
        for n in range(-1030, 1031):
            vals.add(n / 4.0)
    out = set()
    for x in vals:
        if math.isfinite(x):
            out.add(x)
            out.add(-x)
    # canonical order that keeps -0.0 and 0.0 apart
    return sorted(out, key=lambda x: (abs(x), math.copysign(1.0, x)))


def int_values(lo, hi, quick):
    vals = set(cref.boundary_values(lo, hi))
    vals.update(cref.boundary_values(-(1 << 63), (1 << 63) - 1))
    vals.update(cref.boundary_values(0, (1 << 64) - 1))
    if not quick:
        for bits in (8, 16, 32, 64):
            for b in (-(1 << (bits - 1)), (1 << (bits - 1)) - 1, (1 << bits) - 1, 0, -(1 << bits)):
                vals.update(range(b - 40, b + 41))
        for k in range(0, 200):
            for s in (1, -1):
                for d in (-1, 0, 1):
                    vals.add(s * (1 << k) + d)
        vals.update(range(-70000, 70001))
        vals.update((10 ** 30 + 7, -(10 ** 30) - 7, 3 ** 200, -(3 ** 200), (1 << 4000) + 12345, -(1 << 4000) - 12345))
    return sorted(vals, key=lambda v: (abs(v), v))


def reduce_ref(n, size, sg, is_bool):
    """The statement's rule for an integer n already truncated toward zero."""
    if is_bool:
        return 1 if n != 0 else 0
    bits = 8 * size
    m = n & ((1 << bits) - 1)
    if sg and m >= 1 << (bits - 1):
        m -= 1 << bits
    return m


def type_class(t, size, sg):
    if t in CHARS:
        return "char:" + t
    if t in TYPEDEFS:
        return "typedef_" + ("bool" if t in BOOLS else ("enum_" if "_e" in t else "") + ("s" if sg else "u") +
                             str(8 * size))
    return _c03.type_class(t, size, sg)


def encode(v, size):
    return (v & ((1 << (8 * size)) - 1)).to_bytes(size, sys.byteorder)


_REF = None        # ctypes CDLL with the gcc conversions
_SO = None
_FACTS = None
_QUICK = True
_API = None        # (ffi, lib) of a compiled API-mode module declaring every target type
_OOL = None        # ffi of an out-of-line ABI module declaring every target type an ABI-mode cdef can


def cdef_types(api):
    out = "".join(v + "\n" for v in _c03.ENUMS.values())
    out += "".join(TYPEDEFS[t] + "\n" for t in sorted(TYPEDEFS))
    if api:
        out += "".join(APIDEFS[t][0] + "\n" for t in sorted(APIDEFS))
    return out


def build_modules():
    """The API-mode module (compiled) and the out-of-line ABI module (generated Python)."""
    global _API, _OOL
    import cffi
    d = os.path.join(build.scratch_shared(), "c04_%d" % os.getpid())
    os.makedirs(d, exist_ok=True)
    name = "_c04api_%d" % os.getpid()
    fb = cffi.FFI()
    fb.cdef(cdef_types(True) + "int some_function(int);")
    fb.set_source(name, HEADERS + c_defs() + "int some_function(int x) { return x + 1; }\n",
                  extra_compile_args=["-O0"])
    so = fb.compile(tmpdir=d)
    mod = _c03._import(name, so)
    _API = (mod.ffi, mod.lib)
    oname = "_c04ool_%d" % os.getpid()
    fo = cffi.FFI()
    fo.cdef(cdef_types(False))
    fo.set_source(oname, None)
    opath = os.path.join(d, oname + ".py")
    with contextlib.redirect_stdout(io.StringIO()):
        fo.emit_python_code(opath)
    _OOL = _c03._import(oname, opath).ffi


def gcc_value(t, kind, x):
    """The value C computes, or None where C does not define the conversion."""
    size, sg = _FACTS[t]
    is_bool = t in BOOLS
    i = ident(t)
    rty = ctypes.c_longlong if sg else ctypes.c_ulonglong
    if kind == "float":
        n = int(x)
        lo, hi = cref.int_range(size, sg, False)
        if not is_bool and not (lo <= n <= hi):
            return None                     # undefined behaviour in C
        f = getattr(_REF, "from_d_" + i)
        f.argtypes, f.restype = [ctypes.c_double], rty
        return f(x)
    if -(1 << 63) <= x < (1 << 63):
        f = getattr(_REF, "from_s_" + i)
        f.argtypes, f.restype = [ctypes.c_longlong], rty
        return f(x)
    if 0 <= x < (1 << 64):
        f = getattr(_REF, "from_u_" + i)
        f.argtypes, f.restype = [ctypes.c_ulonglong], rty
        return f(x)
    return None                             # not representable in any C integer type


class PtrWorld(object):
    """Pointer / array / function cdata together with their addresses as a C function sees them."""

    def __init__(self):
        import cffi
        self.ffi = ffi = cffi.FFI()
        ffi.cdef("struct opaque_s; void take_ptr(void *); int some_function(int); extern int some_array[4];" + STRUCT)
        ffi.cdef(cdef_types(False))
        self.lib = ffi.dlopen(_SO)
        self.rec = ctypes.c_ulonglong.in_dll(_REF, "rec_ptr")
        self.keep = []
        self.mismatches = []
        srcs = []
        for a in ADDRS:
            for ct in ("void *", "char *", "int *", "struct opaque_s *", "void **", "int(*)(int)", "int[3]",
                       "char[1]"):
                srcs.append(("%s@synthetic" % ("function" if "(*)" in ct else "array" if "[" in ct else "pointer"),
                             ct, ffi.cast(ct, a), a))
        own_arr = ffi.new("int[4]")
        own_ptr = ffi.new("long long *")
        ba = bytearray(16)
        fb = ffi.from_buffer(ba)
        cb = ffi.callback("int(int)", lambda x: x)
        self.keep += [own_arr, own_ptr, ba, fb, cb]
        real = [("array@real", "int[4] (owning)", own_arr), ("pointer@real", "long long * (owning)", own_ptr),
                ("array@real", "char[] from_buffer", fb), ("function@real", "callback", cb),
                ("function@real", "lib function", self.lib.some_function),
                ("function@real", "addressof(lib, function)", ffi.addressof(self.lib, "some_function")),
                ("array@real", "lib array", self.lib.some_array),
                ("pointer@real", "addressof(lib, array)", ffi.addressof(self.lib, "some_array")),
                ("pointer@real", "own_arr + 1", own_arr + 1)]
        # cdata objects with other C layouts (own length, gc, handle, from_buffer of a non-char array), pointers
        # obtained by addressof / from memory, a function pointer read from a struct field, NULL, and the
        # function pointer of a compiled (API-mode) module
        open_arr = ffi.new("int[]", 5)
        gcp = ffi.gc(ffi.cast("int *", own_arr), lambda p: None)
        hobj = object()
        handle = ffi.new_handle(hobj)
        ba2 = bytearray(16)
        fb2 = ffi.from_buffer("int[]", ba2)
        st = ffi.new("struct c04_s *")
        st.fn = self.lib.some_function
        st.p = own_arr
        pp = ffi.new("void **", own_arr)
        self.keep += [open_arr, gcp, hobj, handle, ba2, fb2, st, pp]
        real += [("array@real", "int[] (owning, open length)", open_arr), ("pointer@real", "ffi.gc(int *)", gcp),
                 ("pointer@real", "new_handle", handle), ("array@real", "int[] from_buffer", fb2),
                 ("pointer@real", "addressof(struct)", ffi.addressof(st[0])),
                 ("pointer@real", "addressof(struct, field)", ffi.addressof(st, "fn")),
                 ("function@real", "function pointer read from a struct field", st.fn),
                 ("pointer@real", "pointer read from a struct field", st.p),
                 ("pointer@real", "pointer read from memory", pp[0]), ("pointer@real", "NULL", ffi.NULL)]
        if _API is not None:
            real.append(("function@real", "addressof(API-mode lib, function)",
                         _API[0].addressof(_API[1], "some_function")))
        self.n_real = len(real)
        for kind, name, cd in real:
            srcs.append((kind, name, cd, None))
        # the address of every source, as received by compiled C and read back through ctypes
        self.sources = []
        for kind, name, cd, a in srcs:
            self.rec.value = 0x1234
            self.lib.take_ptr(cd)
            seen = self.rec.value
            if a is not None and seen != a:
                # ffi.cast(pointer type, int) is the "and back" half of the statement's round trip:
                # reported once by the driver; the source is then used at the address it really has
                self.mismatches.append((name, a, seen))
            self.sources.append((kind, name, cd, seen))
        fa = ctypes.cast(_REF.some_function, ctypes.c_void_p).value
        got = [s for s in self.sources if s[1] == "lib function"][0][3]
        if fa != got:
            raise InfraError("ctypes and the C recorder disagree on a function address")

    def address_of(self, cd):
        self.rec.value = 0x1234
        self.lib.take_ptr(cd)
        return self.rec.value


_PW = None


def ptr_world():
    """One PtrWorld per process (the sources are immutable; building one costs a cdef parse)."""
    global _PW
    if _PW is None or _PW[0] != os.getpid():
        pw = PtrWorld()
        _PW = (os.getpid(), pw)
    return _PW[1]


def check_type(t, quick, only=None):
    """Returns (ncases, hist, nontrivial, bad)."""
    size, sg = _FACTS[t]
    is_bool = t in BOOLS
    lo, hi = cref.int_range(size, sg, is_bool)
    tc = type_class(t, size, sg)
    pw = ptr_world()
    # the FFI whose ctype object is the target: the in-line one, or the compiled one for API-mode-only types
    ffi = _API[0] if t in APIDEFS else pw.ffi
    ct = ffi.typeof(t)
    pct = ffi.typeof(ffi.getctype(ct, "*"))
    # the same target named by a string, on each kind of FFI that can declare it
    by_name = [("str-api", _API[0])]
    if t not in APIDEFS:
        by_name = [("str-inline", pw.ffi), ("str-ool", _OOL)] + by_name
    hist = {}
    bad = []
    counters = [0, 0]

    def cnt(k, c=1):
        hist[k] = hist.get(k, 0) + c

    def one(kind, x, n, shown, via=None):
        """kind: source kind; x: the object given to cast; n: x truncated toward zero as an integer
        (address / code point); shown: replayable description of x; via: None = ffi.cast(ctype object, x), or
        (label, FFI) = FFI.cast(type name, x)."""
        if via is not None:
            kind = "%s/%s" % (kind, via[0])
        if only is not None and (kind.split("@")[0], shown) != only:
            return
        counters[0] += 1
        want = reduce_ref(n, size, sg, is_bool)
        if is_bool and kind == "float":
            want = 1 if x != 0.0 else 0
        g = gcc_value(t, "float" if kind == "float" else "int", x if kind == "float" else n)
        if g is not None and g != want:
            raise InfraError("reference model and gcc disagree: (%s)%r: model %d, gcc %d" % (t, shown, want, g))
        fits = lo <= n <= hi
        icl = "fits" if fits else ("wraps" if -(1 << 63) <= n < (1 << 64) else "wraps_beyond_64_bits")
        if kind.endswith("@real"):
            icl = "real_address"            # the class must not depend on where the loader put things
        if not fits or n in (lo, hi) or kind.endswith("@real"):
            counters[1] += 1
        cnt("source=%s:%s" % (kind, icl))
        cnt("target=%s:%s" % (tc, icl))
        cnt("oracle:" + ("model+gcc" if g is not None else "model_only(C leaves it undefined or has no such operand)"))
        sig = {"source": kind, "type_class": tc, "input_class": icl}
        try:
            if via is None:
                cd = ffi.cast(ct, x)
            else:
                cd = via[1].cast(t, x)
            got = int(cd)
        except Exception as e:
            bad.append((dict(sig, kind="raised"), {"type": t, "source": kind, "input": shown, "kind": "raised",
                                                    "error": "%s: %s" % (type(e).__name__, e), "expected": want}))
            return
        if got != want or type(got) is not int:
            bad.append((dict(sig, kind="value"), {"type": t, "source": kind, "input": shown, "kind": "value",
                                                   "got": got, "expected": want, "gcc": g}))
            return
        if via is None and ffi.typeof(cd) is not ct:
            bad.append((dict(sig, kind="result-type"), {"type": t, "source": kind, "input": shown,
                                                         "kind": "result-type", "got": str(ffi.typeof(cd))}))
            return
        # the bytes the result holds (what a C function or a store would get), not only what int() makes of them
        try:
            if via is None:
                stored = bytes(ffi.buffer(ffi.new(pct, cd)))
            else:
                stored = bytes(via[1].buffer(via[1].new(t + " *", cd)))
        except Exception as e:
            stored = "%s: %s" % (type(e).__name__, e)
        if stored != encode(want, size):
            bad.append((dict(sig, kind="stored-bytes"), {
                "type": t, "source": kind, "input": shown, "kind": "stored-bytes",
                "got": stored.hex() if isinstance(stored, bytes) else stored, "expected": encode(want, size).hex()}))

    for v in int_values(lo, hi, quick):
        one("int", v, v, ["int", v])
        for via in by_name:
            one("int", v, v, ["int", v], via)
    for x in float_values(quick):
        one("float", x, int(x), ["float", x.hex()])
    for b in (False, True):
        one("bool", b, int(b), ["bool", int(b)])
    for k in range(256):
        one("bytes", bytes([k]), k, ["bytes", k])
    for s in STRS:
        one("str", s, ord(s), ["str", ord(s)])
    for j, (kind, name, cd, addr) in enumerate(pw.sources):
        one(kind, cd, addr, ["cdata", j, name])

    # pointer -> intptr_t / uintptr_t -> pointer
    if t in ("intptr_t", "uintptr_t"):
        for j, (kind, name, cd, addr) in enumerate(pw.sources):
            if only is not None and (kind.split("@")[0] + "-roundtrip", ["cdata", j, name]) != only:
                continue
            counters[0] += 1
            counters[1] += 1
            cnt("roundtrip:%s" % kind)
            sig = {"source": kind, "type_class": tc, "input_class": "roundtrip"}
            det = {"type": t, "source": kind.split("@")[0] + "-roundtrip", "input": ["cdata", j, name]}
            try:
                mid = ffi.cast(ct, cd)
                back_void = ffi.cast("void *", mid)
                pct = ffi.typeof(cd)
                back_own = ffi.cast(pct, mid) if pct.kind in ("pointer", "function") else None
            except Exception as e:
                bad.append((dict(sig, kind="raised"), dict(det, kind="raised",
                                                            error="%s: %s" % (type(e).__name__, e))))
                continue
            a1 = pw.address_of(back_void)
            a2 = pw.address_of(back_own) if back_own is not None else addr
            if a1 != addr or a2 != addr or (back_own is not None and not (back_own == cd)):
                bad.append((dict(sig, kind="roundtrip"), dict(det, kind="roundtrip", address=addr, via_void=a1,
                                                               via_own_type=a2)))
    return counters[0], hist, counters[1], bad


def work(t):
    return check_type(t, _QUICK)


def setup():
    global _REF, _SO, _FACTS
    types, facts = types_and_facts()
    _FACTS = facts
    _SO = cref.compile_so(ref_source(types, facts), name="c04ref")
    _REF = ctypes.CDLL(_SO)
    build_modules()
    return types


def run(ctx):
    global _QUICK
    _QUICK = ctx.quick
    types = setup()
    import cffi
    probe = cffi.FFI()
    probe.cdef(cdef_types(False))
    usable = []
    for t in types:
        pf = _API[0] if t in APIDEFS else probe
        if pf.sizeof(t) != _FACTS[t][0]:
            # the reference of such a type would be for another size: reported, not explored
            ctx.violation({"kind": "sizeof", "type_class": type_class(t, *_FACTS[t])},
                          {"type": t, "kind": "sizeof", "cffi": pf.sizeof(t), "gcc": _FACTS[t][0]})
        else:
            usable.append(t)
    types = usable
    for name, a, seen in ptr_world().mismatches:
        ctx.violation({"kind": "int-to-pointer", "ctype": name, "address_class": "high" if a >= 1 << 31 else "low"},
                      {"type": name, "kind": "int-to-pointer", "address": a, "arrives_in_C_as": seen})
    results = {}
    # the quick tier is a few CPU-seconds of work: more than a handful of workers costs more than it saves
    for t, r in pool.pmap(work, [[t] for t in types], nproc=min(pool.NPROC, 4) if ctx.quick else None):
        if isinstance(r, pool.WorkerError):
            raise InfraError(r.tb)
        results[t] = r
    total = nontrivial = 0
    for t in types:
        r = results[t]
        if isinstance(r, pool.Crash):
            ctx.violation({"kind": "crash", "type_class": type_class(t, *_FACTS[t])},
                          {"type": t, "kind": "crash", "how": r.describe()})
            continue
        n, hist, nt, bad = r
        total += n
        nontrivial += nt
        for k, c in hist.items():
            ctx.count(k, c)
        for sig, info in bad:
            ctx.violation(sig, info)
        ctx.sample({"type": t, "size": _FACTS[t][0], "signed": _FACTS[t][1],
                    "example": "int(ffi.cast(%r, 2**64 + 1)) == %d" % (
                        t, reduce_ref((1 << 64) + 1, _FACTS[t][0], _FACTS[t][1], t in BOOLS))})
    cov = {
        "evaluations": total,
        "distinct_nontrivial": nontrivial,
        "types": len(types),
        "rule": "every integer type of cffi's primitive table + _Bool + 4 enums + char, wchar_t, char16_t, char32_t + 6 "
                "typedef names (integer, _Bool and anonymous-enum typedefs) + 12 API-mode-only types (8 'typedef int... "
                "T', 4 partial enums; cast on the compiled FFI) x "
                "{ints: B(T) + B(long long) + B(unsigned long long)%s, each with the target given as a ctype object and "
                "as a type name on the in-line, the out-of-line ABI and the compiled API-mode FFI; floats: +-{0, 0.5, "
                "0.99.., 1.5, 2.5, 2^k, 2^k+-1, "
                "2^k+-0.5, 2^k+-1.5, 2^k+-ulp for k in %s, 1e300, DBL_MAX, DBL_MIN, 5e-324}; False/True; all 256 "
                "one-byte bytes; %d one-character str; %d pointer/array/function cdata (8 ctypes x 7 synthetic addresses "
                "+ %d real objects: owning / open-length / from_buffer arrays, ffi.gc, new_handle, addressof of a struct "
                "and of a field, pointers and a function pointer read from memory, NULL, callback, library functions of "
                "an in-line and of a compiled module)} + pointer->intptr_t/uintptr_t->pointer round trips; observed: "
                "int() of the result and the bytes it stores through ffi.new; non-trivial = the source does "
                "not fit T (wraps) or is exactly a bound of T, or is a cdata at a real address, or a round trip (distinct (type, source) pairs)" % (
                    "" if ctx.quick else " + bounds of every width +-40 + +-2^k+-{0,1} for k<200 + [-70000,70000] + "
                    "3^200, 2^4000", "{7,8,15,16,31,32,52,53,63,64,100}" if ctx.quick else "0..1023 (+ 2^-k, n/4)",
                    len(STRS), 8 * len(ADDRS) + ptr_world().n_real, ptr_world().n_real),
        "exhaustive": True,
        "bound": {"ints": "B(T)+B(ll)+B(ull)" if ctx.quick else "dense", "float_exponents": 11 if ctx.quick else 1024},
    }
    return ctx.finish(cov, [
        "gcc 12 on this machine: sizes/signedness and every conversion C defines (integer->integer, in-range "
        "float->integer, pointer->integer) are computed by compiled C through ctypes",
        "where C leaves the conversion undefined (float outside T's range, operands beyond 64 bits) only the "
        "statement's rule (truncate, reduce modulo 2^(8 sizeof T)) is the oracle",
        "plain 'char' is a byte 0..255 in cffi (int() is ord()); it is judged in that range, not as C's signed char",
        "the address of a pointer cdata is what a compiled C function receives for it (read back through ctypes)"])


def replay(detail):
    setup()
    t = detail["type"]
    if detail["kind"] in ("sizeof", "crash"):
        print(detail)
        return 1
    if detail["kind"] == "int-to-pointer":
        mm = [m for m in PtrWorld().mismatches if m[0] == t and m[1] == detail["address"]]
        for name, a, seen in mm:
            print("ffi.cast(%r, %#x) arrives in a C function as %#x" % (name, a, seen))
        if not mm:
            print("no mismatch")
        return 1 if mm else 0
    inp = detail["input"]
    n, hist, nt, bad = check_type(t, True, only=(detail["source"].split("@")[0], inp))
    if n == 0:
        n, hist, nt, bad = check_type(t, False, only=(detail["source"].split("@")[0], inp))
    print("ffi.cast(%r, %r): %d case(s) re-executed" % (t, inp, n))
    for sig, info in bad:
        print("MISMATCH", info)
    if not bad:
        print("no mismatch")
    return 1 if bad else 0
