"""C34 supplement: numbered anonymous structs ('$1', '$2', ...) across include chains.

A struct that has no tag and no direct typedef name (`typedef struct {...} *p_t;`) is
numbered per parser.  Every FFI of a chain declares its own such struct; through the
including FFIs each pointer typedef must still denote the included module's type (same
ctype object, same size of the pointee), in in-line and out-of-line ABI mode, for
every chain shape of length 2-3 and every subset of modules that declare one.  Mode "api"
compiles the same chains (the `named_ptr` branch of the generator's struct table).
"""
import contextlib
import importlib.util
import io
import itertools
import os
import subprocess
import sys

from .. import build

SIZES = {"a": ("int x; int y;", 8), "b": ("double d[4];", 32), "c": ("char k[3];", 3)}


def _cdef(name):
    return "typedef struct { %s } *p%s_t;" % (SIZES[name][0], name)


def cases():
    out = []
    for chain in (("a", "b"), ("a", "b", "c")):
        for declaring in itertools.product((False, True), repeat=len(chain)):
            if not declaring[0] or sum(declaring) < 2:
                continue
            for mode in ("inline", "ool", "api"):
                out.append((chain, declaring, mode))
    return out


def run_case(case, tag):
    import cffi
    chain, declaring, mode = case
    ffis = {}
    prev = None
    d = os.path.join(build.scratch(), "c34anon-%s" % tag)
    os.makedirs(d, exist_ok=True)
    for name, decl in zip(chain, declaring):
        f = cffi.FFI()
        if prev is not None:
            f.include(prev)
        f.cdef(_cdef(name) if decl else "typedef int filler_%s_t;" % name)
        if mode == "api":
            # every module's C source defines the typedefs it and the modules before it in the chain declare
            csrc = "".join((_cdef(n2) if d2 else "typedef int filler_%s_t;" % n2) + "\n"
                           for n2, d2 in list(zip(chain, declaring))[:len(ffis) + 1])
            f.set_source("_c34an_%s_%s_%d" % (tag, name, os.getpid()), csrc)
        else:
            f.set_source("_c34an_%s_%s" % (tag, name), None)
        ffis[name] = f
        prev = f
    if mode == "api":
        loaded = {}
        sys.path.insert(0, d)
        try:
            for name in chain:
                modname = "_c34an_%s_%s_%d" % (tag, name, os.getpid())
                cfile = os.path.join(d, modname + ".c")
                with contextlib.redirect_stdout(io.StringIO()):
                    ffis[name].emit_c_code(cfile)
                p = subprocess.run(["gcc", "-O0", "-w", "-shared", "-fPIC", "-I" + build.INCLUDEPY, cfile, "-o",
                                    os.path.join(d, modname + build.EXT_SUFFIX)],
                                   stdout=subprocess.PIPE, stderr=subprocess.STDOUT, text=True)
                if p.returncode != 0:
                    return [("chain_build_failed", name, name, "gcc rejects the generated module: " + p.stdout[-600:])]
            importlib.invalidate_caches()
            for name in chain:
                loaded[name] = importlib.import_module("_c34an_%s_%s_%d" % (tag, name, os.getpid())).ffi
        finally:
            sys.path.remove(d)
        ffis = loaded
    if mode == "ool":
        loaded = {}
        sys.path.insert(0, d)
        try:
            for name in chain:
                modname = "_c34an_%s_%s" % (tag, name)
                with contextlib.redirect_stdout(io.StringIO()):
                    ffis[name].emit_python_code(os.path.join(d, modname + ".py"))
            for name in chain:
                loaded[name] = importlib.import_module("_c34an_%s_%s" % (tag, name)).ffi
        finally:
            sys.path.remove(d)
        ffis = loaded
    bad = []
    declared = [n for n, dd in zip(chain, declaring) if dd]
    for i, owner in enumerate(chain):
        if owner not in declared:
            continue
        own = ffis[owner].typeof("p%s_t" % owner)
        for user in chain[i:]:
            try:
                t = ffis[user].typeof("p%s_t" % owner)
                size = ffis[user].sizeof(t.item)
            except Exception as e:
                bad.append(("not_visible", owner, user, "%s: %s" % (type(e).__name__, e)))
                continue
            if size != SIZES[owner][1]:
                bad.append(("layout", owner, user, {"sizeof_pointee": size, "expected": SIZES[owner][1]}))
            elif t is not own:
                bad.append(("identity", owner, user, None))
    return bad
