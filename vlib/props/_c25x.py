"""C25, families added after the audit round (.cache/audit/C25.md):

 2s  special names   names that the runtime's type-name fallbacks know, declared as something else; every case runs
                     in a forked child of the pool worker (one of them aborts the interpreter, and the damage it does
                     is to process-wide state)
 2i  include chains  ABI modules  A -> (B1 -> C, B2): the lookups that miss locally and are delegated
 3i  include chains  the same four modules compiled (API mode): delegation through the included lib objects
 3m  mixed kinds     API modules whose globals table holds every kind of entry over a colliding name set

Everything is enumerated exhaustively over the stated finite families; the oracle is the one of c25.py: the value,
field name and size that carry the global index of the name that was declared.
"""
import contextlib
import importlib
import io
import itertools
import os
import pickle
import signal
import sys
import tempfile
import traceback

from .. import build, pool
from ..build import InfraError


def _B():
    from . import c25
    return c25


# ---------------------------------------------------------------------------------------
# crash containment: one case = one forked child

def isolated(func, arg, keep_stderr=1200):
    """Run func(arg) in a forked child.  -> ("ok", result) | ("crash", {"how":..., "stderr":...}).
    An exception that escapes func in the child is a harness failure (InfraError here)."""
    rfd, wfd = os.pipe()
    errf = tempfile.TemporaryFile()
    sys.stdout.flush()
    sys.stderr.flush()
    pid = os.fork()
    if pid == 0:
        code = 0
        try:
            os.close(rfd)
            os.dup2(errf.fileno(), 2)
            try:
                res = ("ok", func(arg))
            except InfraError as e:
                res = ("infra", str(e))
            except BaseException:
                res = ("infra", traceback.format_exc())
            with os.fdopen(wfd, "wb") as f:
                pickle.dump(res, f)
        except BaseException:
            code = 3
        finally:
            os._exit(code)
    os.close(wfd)
    chunks = []
    with os.fdopen(rfd, "rb") as f:
        while True:
            b = f.read(65536)
            if not b:
                break
            chunks.append(b)
    _, status = os.waitpid(pid, 0)
    errf.seek(0)
    err = errf.read().decode("utf-8", "replace")
    errf.close()
    data = b"".join(chunks)
    if os.WIFEXITED(status) and os.WEXITSTATUS(status) == 0 and data:
        st, res = pickle.loads(data)
        if st == "infra":
            raise InfraError("isolated case failed in the harness: %s" % res)
        return st, res
    if os.WIFSIGNALED(status):
        try:
            how = "killed by %s" % signal.Signals(os.WTERMSIG(status)).name
        except ValueError:
            how = "killed by signal %d" % os.WTERMSIG(status)
    else:
        how = "exit status %d" % os.WEXITSTATUS(status)
    # the first lines say what died ("Fatal Python error: ...")
    lines = [ln for ln in err.splitlines() if ln.strip()]
    return "crash", {"how": how, "stderr": "\n".join(lines[:4])[:keep_stderr]}


# ---------------------------------------------------------------------------------------
# 2s: special names

RULE_SPECIAL = ("the 8 names uint8_t size_t ssize_t wchar_t int_fast8_t bool FILE _IO_FILE, each alone, next to each "
                "name of CORE6, the 7 without _IO_FILE together and all 8 together, as ABI modules of the kinds a b c f "
                "g (a process of its own for every module that declares _IO_FILE), + struct _IO_FILE { int _flags; ...; } "
                "as a compiled module against "
                "<stdio.h>")


def special_sets():
    B = _B()
    sets = [(s,) for s in B.SPECIAL]
    sets += [(s, c) for s in B.SPECIAL for c in B.CORE6]
    sets.append(tuple(s for s in B.SPECIAL if s != "_IO_FILE"))
    sets.append(tuple(B.SPECIAL))
    return sets


def _special_case(arg):
    B = _B()
    S, kind = arg
    return B.run_set(tuple(S), "abi", kind)


IOFILE_CDEF = "struct _IO_FILE { int _flags; ...; };\nint fileno(FILE *);\n"
IOFILE_CSRC = "#include <stdio.h>\n"


def _iofile_reference():
    from .. import cref
    out = cref.run_c('#include <stdio.h>\n#include <stddef.h>\nint main(void) { printf("%zu %zu\\n", '
                     'sizeof(struct _IO_FILE), offsetof(struct _IO_FILE, _flags)); return 0; }\n')
    size, off = out.split()
    return int(size), int(off)


def _special_api_case(ref):
    """API mode: glibc's own struct tag, declared with one of its fields.  typeof('struct _IO_FILE') must be that
    struct: a struct with the field _flags and the size gcc gives."""
    B = _B()
    ffi, lib = B.make_api(IOFILE_CDEF, IOFILE_CSRC)
    bad = []
    want = ("struct", "_flags", ref[1], ref[0])
    try:
        ct = ffi.typeof("struct _IO_FILE")
        f = ct.fields
        got = (ct.kind, f[0][0] if f else None, f[0][1].offset if f else None, ffi.sizeof(ct))
        if got != want:
            bad.append(("struct_tag", "_IO_FILE", "resolved to %r, want %r" % (got, want)))
    except Exception as e:
        bad.append(("struct_tag", "_IO_FILE", "member not found: " + B._err(e)))
    return 1, 1, [{"mode": "api", "module": "iofile", "set": ["_IO_FILE"], "what": w, "probe": u, "msg": m}
                  for w, u, m in bad]


def special_item(item):
    """One pool item = a list of cases.  Every case that declares _IO_FILE runs in a child of its own: declaring
    'struct _IO_FILE' with fields writes into the process-wide FILE type (and usually aborts the interpreter), so
    nothing else may be looked up in that process afterwards.  (Forking for ALL cases is too slow on this machine.)"""
    import warnings
    warnings.simplefilter("ignore")
    tot = [0, 0, 0, 0]
    res = []
    for case in item:
        if case[0] == "api_iofile":
            st, r = isolated(_special_api_case, case[1])
            S, kind, mode = ["_IO_FILE"], "iofile", "api"
        else:
            _, S, kind = case
            if "_IO_FILE" in S:
                st, r = isolated(_special_case, (S, kind))
            else:
                st, r = "ok", _special_case((S, kind))
            mode = "abi"
        tot[0] += 1
        tot[3] += 1
        if st == "crash":
            res.append({"mode": mode, "module": kind, "set": list(S), "what": "crash", "probe": None,
                        "msg": r["how"], "stderr": r["stderr"]})
            continue
        n, f, bad = r
        tot[1] += n
        tot[2] += f
        res.extend(bad)
    return tot, res


def special_sig(b):
    B = _B()
    part = "abi_module" if b["mode"] == "abi" else "api_module"
    if b["what"] == "crash":
        sp = [s for s in b["set"] if s in B._SPECIAL_SET]
        return {"part": part, "kind": "crash",
                "special_name": "_IO_FILE" if "_IO_FILE" in sp else "+".join(sorted(sp))}
    return B.sig_for(part, b)


def special_items(ctx):
    B = _B()
    cases = []
    for S in special_sets():
        ctx.count("special.sets_size_%s" % (len(S) if len(S) <= 2 else ">2"))
        for kind in "abcfg":     # not e: cdef itself refuses an ENUMERATOR called size_t (pycparser knows it as a type)
            cases.append(("abi", S, kind))
    cases.append(("api_iofile", _iofile_reference()))
    ctx.count("special.cases_in_a_process_of_their_own",
              sum(1 for c in cases if c[0] == "api_iofile" or "_IO_FILE" in c[1]))
    ctx.sample({"part": "2s", "set": ["size_t", "A"], "cdef_b": B.text_for(("size_t", "A"), "b")})
    cases.sort(key=lambda c: 0 if c[0] == "api_iofile" or "_IO_FILE" in c[1] else 1)      # the slow ones first
    return list(pool.chunks(cases, 3))


def collect_special(ctx, results, ev):
    B = _B()
    for item, r in results:
        if isinstance(r, pool.WorkerError):
            raise InfraError("worker failed: %s" % r.tb)
        if isinstance(r, pool.Crash):
            sp = sorted(set(s for c in item if c[0] == "abi" for s in c[1] if s in B._SPECIAL_SET))
            ctx.violation({"part": "abi_module", "kind": "crash", "special_name": "+".join(sp)},
                          {"part": "2s", "family": "special_block", "block": item, "how": r.describe()})
            continue
        t, res = r
        for i in range(4):
            ev[i] += t[i]
        for b in res:
            if b["what"] == "crash":
                ctx.count("special.cases_that_killed_their_process")
            ctx.violation(special_sig(b), dict(b, part="2s", family="special"))
    ctx.count("special.cases", ev[0])
    ctx.log("part 2s: %d special-name modules, %d lookups, %d of members" % (ev[0], ev[1], ev[2]))


# ---------------------------------------------------------------------------------------
# 2L: long names

RULE_LONG = ("6 names of 199..256 characters that share their first 199 or 200 characters: every subset of size <= 2 "
             "as ABI modules of the kinds a, b, c, probed with these 6 names + CORE6")


def long_block(item):
    B = _B()
    import warnings
    warnings.simplefilter("ignore")
    tot = [0, 0, 0, 0]
    res = []
    for S in item:
        n, f, bad = B.run_set(S, "abi", "abc", universe=B.LONG + B.CORE6)
        tot[0] += 1
        tot[1] += n
        tot[2] += f
        tot[3] += 3
        res.extend(dict(b, universe="long") for b in bad)
    return tot, res


def long_items(ctx):
    B = _B()
    return list(pool.chunks(list(B.enumerate_sets(B.LONG, 2)), 2))


def collect_long(ctx, results, ev):
    B = _B()
    B.collect(ctx, "abi_module_long_names", "2L", results, ev)
    ctx.count("long_names.sets", ev[0])
    ctx.log("part 2L: %d sets of long names as %d ABI modules, %d lookups, %d of members" % (ev[0], ev[3], ev[1], ev[2]))


# ---------------------------------------------------------------------------------------
# 2i / 3i: ffi.include() chains
#
#   A includes B1 and B2 (in that order), B1 includes C.  One C scope: a name is owned by exactly one module.

ROLES = ("A", "B1", "B2", "C")
INCLUDES = {"A": ("B1", "B2"), "B1": ("C",), "B2": (), "C": ()}
BUILD_ORDER = ("C", "B1", "B2", "A")
CHAIN_KINDS = "abh"            # h, not c: see the table of kinds in c25.py


def visible_roles(role):
    out = [role]
    for inc in INCLUDES[role]:
        out += visible_roles(inc)
    return out


def chain_kmax(ctx):
    return 2 if ctx.quick else 3


def chain_core(ctx):
    B = _B()
    return B.CORE6 if ctx.quick else B.CORE8


def chain_configs(core, kmax):
    for k in range(0, kmax + 1):
        for S in itertools.combinations(core, k):
            for owners in itertools.product(ROLES, repeat=k):
                yield tuple(zip(S, owners))


def rule_chains_abi(ctx):
    return ("every set of size <= %d of %s x every assignment of its names to the four modules of the chain A -> (B1 "
            "-> C, B2) (4^|S| each), as out-of-line ABI modules of the kinds a, b, h; through A's ffi/lib the whole "
            "80-name universe is looked up, through those of B1, B2 and C the 12 names of CORE12 (a name is a member "
            "iff it is owned by the module or by one it includes); + the 16 assignments of the pair {A, AA} with "
            "kind c (nested anonymous structs)" % (chain_kmax(ctx), "CORE6" if ctx.quick else "CORE8"))


def rule_chains_api(ctx):
    return ("the same chain as four compiled modules: CORE8 dealt round-robin to A, B1, B2, C in %s, kinds a, b, h%s" % (
        "1 rotation" if ctx.quick else "all 4 rotations",
        "" if ctx.quick else ", + all 16 assignments of the prefix pair {A, AA}, kinds a and h"))


_chain_dir = None


def chain_dir():
    """A directory on sys.path: the generated module of the includer imports the included ones BY NAME."""
    global _chain_dir
    if _chain_dir is None or _chain_dir[0] != os.getpid():
        d = os.path.join(build.scratch(), "c25inc")
        os.makedirs(d, exist_ok=True)
        sys.path.insert(0, d)
        sys.dont_write_bytecode = True
        _chain_dir = (os.getpid(), d)
    return _chain_dir[1]


def build_chain(mode, kind, config):
    """-> {role: (ffi, lib)} of the four freshly generated and imported modules."""
    import cffi
    B = _B()
    d = chain_dir()
    base = B._modname("i")
    own = {r: [n for n, o in config if o == r] for r in ROLES}
    ffis = {}
    files = []
    for role in BUILD_ORDER:
        ffi = cffi.FFI()
        for inc in INCLUDES[role]:
            ffi.include(ffis[inc])
        ffi.cdef(B.text_for(own[role], kind))
        name = "%s_%s" % (base, role.lower())
        if mode == "abi":
            ffi.set_source(name, None)
            path = os.path.join(d, name + ".py")
            with contextlib.redirect_stdout(io.StringIO()):
                ffi.emit_python_code(path)
        else:
            # like a header that includes the headers of the included modules
            csrc = "".join(B.c_source_for(own[r], kind) for r in reversed(visible_roles(role)))
            ffi.set_source(name, csrc)
            path = B.compile_generated(ffi, name, d)
        files.append(path)
        ffis[role] = ffi
    importlib.invalidate_caches()
    out = {}
    try:
        top = importlib.import_module("%s_a" % base)       # imports b1 (which imports c) and b2
        for role in ROLES:
            m = sys.modules["%s_%s" % (base, role.lower())]
            out[role] = (m.ffi, m.ffi.dlopen(None) if mode == "abi" else m.lib)
    finally:
        for role in ROLES:
            sys.modules.pop("%s_%s" % (base, role.lower()), None)
        for path in files:
            try:
                os.unlink(path)
            except OSError:
                pass
    return out


def run_chain(mode, kind, config):
    B = _B()
    config = tuple((n, o) for n, o in config)
    try:
        mods = build_chain(mode, kind, config)
    except InfraError:
        raise
    except Exception:
        raise InfraError("cannot build the %s include chain %s for %r: %s" % (
            mode, kind, config, traceback.format_exc()[-1500:]))
    owner = dict(config)
    np_ = nf_ = 0
    out = []
    for role in ROLES:
        vis = set(visible_roles(role))
        members = [n for n, o in config if o in vis]
        ffi, lib = mods[role]
        n, f, bad = B.probe_module(kind, members, ffi, lib, mode, universe=None if role == "A" else B.CORE12,
                                   foreign=[n for n in members if owner[n] != role])
        np_ += n
        nf_ += f
        for what, u, msg in bad:
            out.append({"mode": mode, "module": kind, "config": [list(c) for c in config], "via": role,
                        "owner": owner.get(u), "what": what, "probe": u, "msg": msg})
    return np_, nf_, out


def chain_block(item):
    mode, kinds, configs = item
    import warnings
    warnings.simplefilter("ignore")
    tot = [0, 0, 0, 0]
    res = []
    for config in configs:
        tot[0] += 1
        for kind in kinds:
            n, f, bad = run_chain(mode, kind, config)
            tot[1] += n
            tot[2] += f
            tot[3] += 4
            res.extend(bad)
    return tot, res


def chain_sig(b):
    B = _B()
    sig = {"part": "%s_include_chain" % b["mode"], "table": b["what"],
           "kind": "non_member_found" if b["msg"].startswith("non-member") else "member_lookup",
           "via": b["via"], "owner": b["owner"], "module_kind": b["module"]}
    if b["module"] in "cd" and b["what"] == "anon_typedef" and "resolved to" in b["msg"]:
        # right struct, right size, but the field of the NESTED anonymous struct is another module's: the nested
        # structs are all called '$1' and several of them sit in one sorted table
        g = B.GI[b["probe"]]
        if ("'g%d'" % g) in b["msg"].split(", want")[0]:
            sig["cause"] = "nested_anonymous_struct_numbered_per_module"
    return sig


def _collect_chain(ctx, it, ev):
    for item, r in it:
        if isinstance(r, pool.WorkerError):
            raise InfraError("worker failed: %s" % r.tb)
        if isinstance(r, pool.Crash):
            ctx.violation({"part": "%s_include_chain" % item[0], "kind": "crash"},
                          {"part": "2i", "family": "chain_block", "block": item, "how": r.describe()})
            continue
        t, res = r
        for i in range(4):
            ev[i] += t[i]
        for b in res:
            ctx.violation(chain_sig(b), dict(b, part="2i" if b["mode"] == "abi" else "3i", family="chain"))


def chain_abi_items(ctx, nontrivial):
    configs = list(chain_configs(chain_core(ctx), chain_kmax(ctx)))
    for config in configs:
        ctx.count("chain_abi.configs_size_%d" % len(config))
        roles = sorted(set(o for _, o in config))
        if any(o != "A" for _, o in config):
            nontrivial.add(("chain",) + config)
        ctx.count("chain_abi.owners_%s" % ("+".join(roles) or "none"))
        for (n1, o1), (n2, o2) in itertools.combinations(config, 2):
            if o1 != o2 and (n1.startswith(n2) or n2.startswith(n1)):
                ctx.count("chain_abi.prefix_pair_across_modules")
                break
        if len(config) == 2:
            ctx.sample({"part": "2i", "config": [list(c) for c in config]})
    items = [("abi", CHAIN_KINDS, blk) for blk in pool.chunks(configs, 12)]
    # nested anonymous structs along the chain (module kind c): a known collision of the per-module numbering '$1'
    nested = [(("A", o1), ("AA", o2)) for o1 in ROLES for o2 in ROLES]
    ctx.count("chain_abi.configs_kind_c_nested_anonymous", len(nested))
    items += [("abi", "c", blk) for blk in pool.chunks(nested, 4)]
    return items


def collect_chains_abi(ctx, results, ev):
    _collect_chain(ctx, results, ev)
    ctx.count("chain_abi.configs", ev[0])
    ctx.log("part 2i: %d include-chain configurations as %d ABI modules, %d lookups, %d of members" % (
        ev[0], ev[3], ev[1], ev[2]))


def round_robin(rot):
    B = _B()
    return tuple((n, ROLES[(i + rot) % 4]) for i, n in enumerate(B.CORE8))


def chain_api_items(ctx):
    items = []
    for rot in ((0,) if ctx.quick else (0, 1, 2, 3)):
        for kind in CHAIN_KINDS:
            items.append(("api", kind, [round_robin(rot)]))
    if not ctx.quick:
        for o1 in ROLES:
            for o2 in ROLES:
                for kind in "ah":
                    items.append(("api", kind, [(("A", o1), ("AA", o2))]))
    return items


def collect_chains_api(ctx, results, ev):
    _collect_chain(ctx, results, ev)
    ctx.count("chain_api.chains", ev[0])
    ctx.count("api_modules_compiled", ev[3])
    ctx.log("part 3i: %d include chains as %d compiled modules, %d lookups, %d of members" % (
        ev[0], ev[3], ev[1], ev[2]))


# ---------------------------------------------------------------------------------------
# 3m: one globals table, every kind of entry
#
#   kind of entry for a name n with global index g                       the C side
#   0  int n(void);                  _CFFI_OP_CPYTHON_BLTN_N            returns 200+g
#   1  int n(int);                   _CFFI_OP_CPYTHON_BLTN_O            returns x+300+g
#   2  int n(int, int);              _CFFI_OP_CPYTHON_BLTN_V            returns x*y+400+g
#   3  extern int n;                 _CFFI_OP_GLOBAL_VAR                int n = 500+g
#   4  static const double n;        _CFFI_OP_CONSTANT                  600.5+g
#   5  extern "Python" int n(int);   _CFFI_OP_EXTERN_PYTHON             called through  int Zc<g>(int x) { return n(x); }
#   6  #define n 700+g               _CFFI_OP_CONSTANT_INT              enumerator

NMIX = 7


def mixed_assignment(rot):
    B = _B()
    return tuple((n, (i + rot) % NMIX) for i, n in enumerate(B.CORE8))


def rule_mixed(ctx):
    return ("CORE8 with the 7 kinds of globals entry (function METH_NOARGS / METH_O / METH_VARARGS, variable, "
            "non-integer constant, extern \"Python\", integer constant) dealt round-robin, %s: lib.<n> used according "
            "to its kind, ffi.addressof(lib, n), def_extern(name=n) accepted exactly for the extern \"Python\" names, "
            "dir(lib) == the declared names; for every other name of the 80-name universe and the near-miss spellings "
            "'', n+' ', n+'$' all of these fail" % ("rotations 0 and 3" if ctx.quick else "all 7 rotations"))


def mixed_texts(assign):
    B = _B()
    cdef, csrc = [], []
    for n, k in sorted(assign, reverse=True):
        g = B.GI[n]
        if k == 0:
            cdef.append("int %s(void);\n" % n)
            csrc.append("int %s(void) { return %d; }\n" % (n, 200 + g))
        elif k == 1:
            cdef.append("int %s(int);\n" % n)
            csrc.append("int %s(int x) { return x + %d; }\n" % (n, 300 + g))
        elif k == 2:
            cdef.append("int %s(int, int);\n" % n)
            csrc.append("int %s(int x, int y) { return x * y + %d; }\n" % (n, 400 + g))
        elif k == 3:
            cdef.append("extern int %s;\n" % n)
            csrc.append("int %s = %d;\n" % (n, 500 + g))
        elif k == 4:
            cdef.append("static const double %s;\n" % n)
            csrc.append("static const double %s = %d.5;\n" % (n, 600 + g))
        elif k == 5:
            cdef.append('extern "Python" int %s(int);\nint Zc%d(int);\n' % (n, g))
            csrc.append("static int %s(int);\nint Zc%d(int x) { return %s(x); }\n" % (n, g, n))
        else:
            cdef.append("#define %s %d\n" % (n, 700 + g))
            csrc.append("enum { %s = %d };\n" % (n, 700 + g))
    return "".join(cdef), "".join(csrc)


def run_mixed_module(assign):
    B = _B()
    assign = tuple((n, k) for n, k in assign)
    cdef, csrc = mixed_texts(assign)
    try:
        ffi, lib = B.make_api(cdef, csrc)
    except InfraError:
        raise
    except Exception:
        raise InfraError("cannot build the mixed-kind module %r: %s" % (assign, traceback.format_exc()[-1500:]))
    kind_of = dict(assign)
    bad = []
    nprobes = nfound = 0
    declared = sorted(list(kind_of) + ["Zc%d" % B.GI[n] for n, k in assign if k == 5])
    # registration of the extern "Python" functions: by explicit name, in reverse order
    for n, k in sorted(assign, reverse=True):
        if k == 5:
            try:
                ffi.def_extern(name=n)(lambda x, _g=B.GI[n]: x + 800 + _g)
            except Exception as e:
                bad.append(("def_extern", n, "member not found: " + B._err(e)))
    probes = list(B.IDS_X) + [""] + [n + " " for n in kind_of] + [n + "$" for n in kind_of]
    for u in probes:
        k = kind_of.get(u)
        g = B.GI.get(u, -1)
        nprobes += 3
        # --- lib.<u>
        try:
            v = getattr(lib, u)
            found = True
        except AttributeError:
            found = False
        except Exception as e:
            bad.append(("lib_attr", u, ("member not found: " if k is not None else "non-member: unexpected ") + B._err(e)))
            found = None
        if found is not None:
            if k is None:
                if found:
                    bad.append(("lib_attr", u, "non-member was found: %r" % (v,)))
            elif not found:
                bad.append(("lib_attr", u, "member not found: AttributeError"))
            else:
                nfound += 1
                try:
                    if k == 0:
                        got, want = v(), 200 + g
                    elif k == 1:
                        got, want = v(1), 301 + g
                    elif k == 2:
                        got, want = v(2, 3), 406 + g
                    elif k == 3:
                        got, want = v, 500 + g
                    elif k == 4:
                        got, want = v, 600.5 + g
                    elif k == 5:
                        got, want = getattr(lib, "Zc%d" % g)(1), 801 + g
                    else:
                        got, want = (v, ffi.integer_const(u)), (700 + g, 700 + g)
                    if got != want:
                        bad.append(("lib_attr", u, "resolved to %r, want %r (entry kind %d)" % (got, want, k)))
                except Exception as e:
                    bad.append(("lib_attr", u, "member not found: using it raised " + B._err(e)))
        # --- ffi.addressof(lib, u): functions and variables only
        try:
            p = ffi.addressof(lib, u)
            if k in (0, 1, 2, 3):
                nfound += 1
                got = p() if k == 0 else p(1) if k == 1 else p(2, 3) if k == 2 else p[0]
                want = (200, 301, 406, 500)[k] + g
                if got != want:
                    bad.append(("addressof", u, "resolved to %r, want %r (entry kind %d)" % (got, want, k)))
            elif k is None:
                bad.append(("addressof", u, "non-member was found: %r" % (p,)))
            # k in (4, 5, 6): the statement is silent on whether a constant / extern "Python" entry has an address
        except AttributeError as e:
            if k in (0, 1, 2, 3):
                bad.append(("addressof", u, "member not found: " + B._err(e)))
        except Exception as e:
            if k in (0, 1, 2, 3) or k is None:
                bad.append(("addressof", u, ("member not found: " if k is not None else "non-member: unexpected ") +
                            B._err(e)))
        # --- def_extern(name=u) must be refused for everything that is not an extern "Python" entry
        if k != 5:
            try:
                ffi.def_extern(name=u)(lambda x: x)
                bad.append(("def_extern", u, "non-member was found: def_extern accepted the name"))
            except ffi.error:
                pass
            except Exception as e:
                bad.append(("def_extern", u, "non-member: unexpected " + B._err(e)))
        else:
            nfound += 1
    nprobes += 1
    got = [x for x in dir(lib)]
    if sorted(got) != declared:
        bad.append(("dir_lib", "*", "resolved to %r, want %r" % (sorted(got), declared)))
    return nprobes, nfound, [{"mode": "api", "module": "mixed", "assign": [list(a) for a in assign], "what": w,
                              "probe": u, "msg": m} for w, u, m in bad]


def mixed_block(item):
    import warnings
    warnings.simplefilter("ignore")
    tot = [0, 0, 0, 0]
    res = []
    for assign in item:
        n, f, bad = run_mixed_module(assign)
        tot[0] += 1
        tot[1] += n
        tot[2] += f
        tot[3] += 1
        res.extend(bad)
    return tot, res


def mixed_items(ctx):
    rots = (0, 3) if ctx.quick else tuple(range(NMIX))
    for r in rots:
        ctx.sample({"part": "3m", "cdef": mixed_texts(mixed_assignment(r))[0]})
    return [[mixed_assignment(r)] for r in rots]


def collect_mixed(ctx, results, ev):
    B = _B()
    for item, r in results:
        if isinstance(r, pool.WorkerError):
            raise InfraError("worker failed: %s" % r.tb)
        if isinstance(r, pool.Crash):
            ctx.violation({"part": "api_mixed_module", "kind": "crash"},
                          {"part": "3m", "family": "mixed_block", "block": item, "how": r.describe()})
            continue
        t, res = r
        for i in range(4):
            ev[i] += t[i]
        for b in res:
            sig = B.sig_for("api_mixed_module", b)
            ctx.violation(sig, dict(b, part="3m", family="mixed"))
    ctx.count("mixed_kind.modules", ev[0])
    ctx.count("api_modules_compiled", ev[3])
    ctx.log("part 3m: %d mixed-kind API modules, %d lookups, %d of members" % (ev[0], ev[1], ev[2]))


# ---------------------------------------------------------------------------------------

def replay(detail):
    B = _B()
    fam = detail["family"]
    if fam == "special":
        if detail["module"] == "iofile":
            print(IOFILE_CDEF)
            st, r = isolated(_special_api_case, _iofile_reference())
        else:
            print("ABI module kind", detail["module"], "for", detail["set"])
            print(B.text_for(detail["set"], detail["module"]))
            st, r = isolated(_special_case, (detail["set"], detail["module"]))
        if st == "crash":
            print("the process that looked the names up died:", r["how"])
            print(r["stderr"])
            return 1
        n, f, bad = r
    elif fam == "chain":
        config = [tuple(c) for c in detail["config"]]
        print("mode:", detail["mode"], "module kind:", detail["module"])
        for role in ROLES:
            print("--- module %s (includes %s)" % (role, ", ".join(INCLUDES[role]) or "nothing"))
            print(B.text_for([n for n, o in config if o == role], detail["module"]), end="")
        n, f, bad = run_chain(detail["mode"], detail["module"], config)
    elif fam == "mixed":
        print(mixed_texts([tuple(a) for a in detail["assign"]])[0])
        n, f, bad = run_mixed_module([tuple(a) for a in detail["assign"]])
    elif fam in ("chain_block", "mixed_block", "special_block"):
        func = chain_block if fam == "chain_block" else mixed_block if fam == "mixed_block" else special_item
        st, r = isolated(func, detail["block"])
        print(st, r if st == "crash" else "no crash")
        return 1 if st == "crash" else 0
    else:
        raise InfraError("unknown family %r" % (fam,))
    for b in bad:
        print("MISMATCH", b["what"], b.get("via", ""), b["probe"], b["msg"])
    if not bad:
        print("all %d lookups correct" % n)
    return 1 if bad else 0
