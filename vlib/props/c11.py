"""C11 -- the out-of-line ABI module is equivalent to the in-line FFI.

E1: a declaration alphabet (typedef chains, nested/anonymous/bitfield/flexible/self-referential
aggregates, opaque structs, enums of every base type, constants at the 64-bit boundaries,
functions and globals of one fixed test library, FILE users, declarations included from a
second FFI) and ALL cdefs made of <= k distinct items in every order.  No compiler except the
test library.  For every cdef accepted in-line: emit_python_code(), import, and compare with
the in-line FFI everything the statement lists.

Audit round (.cache/audit/C11.md): 30 more items (unnamed '$N' aggregates, function-TYPE typedefs and more
function shapes, more kinds of globals, degenerate aggregates, cdef(override=True), a second included FFI),
"wide" cdefs whose tables have more than 128 / 256 / 65 536 entries, the same selections given with one
cdef() call per item, and the set of names both libs expose (dir()).
"""
import contextlib
import ctypes
import io
import itertools
import os
import sys

from .. import build, pool
from ..build import InfraError

ID = "C11"
LEVEL = "exploration"
META = dict(
    engine="E1-enum", level="exploration",
    technique="exhaustive enumeration of cdefs (all ordered selections of <= k declarations from an alphabet) with a "
              "differential oracle: in-line FFI vs the imported emit_python_code() module",
    text="Every cdef of <= 2 distinct items (in both orders) over a 65-item declaration alphabet (each item preceded by the items it depends on), and in the thorough "
         "tier every cdef of <= 3 items over its 36-item core, is given to an in-line FFI and to emit_python_code(); "
         "the imported module must agree on every typedef/struct/union/enum/function-pointer type (same object when no "
         "struct/union/enum is involved; otherwise kind, name, size, alignment, every field with offset, bit position "
         "and width, enum base type and enumerators), on every integer constant, on list_types(), and after dlopen() of "
         "one fixed test library on the type and address of every function and the type, value and address of every "
         "global (addresses also checked against ctypes), and every name either lib lists in dir() must be an attribute "
         "of both.  Added families: 30 more items (struct/union/enum with neither tag nor typedef name reached through a "
         "field, a pointer typedef, a two-declarator typedef, a parameter, a global; typedef of a function TYPE and "
         "functions declared through it, array / typedef'd-array parameters, a function returning a function pointer, 7 "
         "arguments, _Bool/wchar_t/long double/float _Complex signatures; _Bool/float/long double/wchar_t/union/"
         "2-D array/array-of-struct/pointer-to-struct globals and const-qualified globals; empty struct/union, enum "
         "without enumerators, _Bool/char/64-bit-wide bitfields, var-sized last member, flexible array of an unnamed "
         "struct; cdef(override=True) of a typedef, an anonymous-struct typedef, an opaque struct, a function, a "
         "global, a const global; a second included FFI with an opaque struct, unnamed structs behind typedefs and "
         "an includer that completes / re-declares included names), each alone and paired in both orders with every "
         "core item (thorough: with every item); the 1- and 2-selections of the core (thorough: of all 95 items) "
         "given with one cdef() call per item instead of merged calls; and 'wide' cdefs with N typedef'd arrays, N "
         "enums, N three-field structs (one a bitfield), one struct of N fields and up to 300 functions and globals "
         "for N = 127, 128, 129, 255, 256, 257 (thorough: also 34000 typedef'd arrays -- 68000 type-table slots -- and a struct of 34000 fields), so "
         "that every index and count of the generated tables crosses 128, 256 (65 536) and the sorted tables are "
         "searched over more than one bisection step.",
    note="the in-line FFI is the reference (the statement is relative to it); cdefs rejected in-line, probes on which "
         "the in-line FFI itself raises, and cdefs emit_python_code() explicitly refuses (OverflowError / "
         "NotImplementedError / VerificationError / TypeError about opaque fields) are excluded and counted; so is "
         "the NotImplementedError with which the generated module refuses, at first use, a struct that is opaque "
         "in the included FFI and completed by the including one; cdef() calls interleaved with typeof() are "
         "histories (C34), not cdefs; expected duration on the idle machine: quick about 40 s, thorough several minutes")


class Item(object):
    def __init__(self, key, text, types=(), consts=(), funcs=(), globs=(), opts=None, core=False,
                 uses_file=False, tagged=None, beyond64=(), cls=(), arrays=(), needs=(), enum_typed=(),
                 ext=False, base=0, segs=None, lazy=None):
        self.key = key
        self._text = text
        self._lazy = lazy               # callable -> (text, types, consts, funcs, globs): the "wide" generated cdefs
        self.via_fields = None          # (struct, n): typedefs wa<i> whose in-line type is taken from field m<i> of struct
        self.types = tuple(types)
        self.consts = tuple(consts)
        self.funcs = tuple(funcs)
        self.globs = tuple(globs)
        self.opts = opts                # None | "packed" | "pack4" | "include" | "multi" (several cdef() calls: segs)
        self.core = core
        self.ext = ext                  # added in the audit round: see enumerate_space() for the products it is in
        self.base = base                # opts == "include": which of BASES is included
        self.segs = segs                # opts == "multi": [(text, None | "override"), ...], one cdef() call each
        self.uses_file = uses_file
        self.tagged = tagged or {}      # {typedef name: tagged type it directly names}
        self.beyond64 = tuple(beyond64)
        self.cls = tuple(cls)
        self.arrays = tuple(arrays)     # globals declared with an array type
        self.needs = tuple(needs)       # items that must be declared before this one (inserted automatically)
        self.enum_typed = tuple(enum_typed)   # globals whose declared type is an enum

    def _force(self):
        if self._lazy is not None:
            self._text, self.types, self.consts, self.funcs, self.globs = self._lazy()
            self._lazy = None

    @property
    def text(self):
        self._force()
        return self._text

    def segments(self):
        """[(text, options)]: the cdef() calls this item consists of (include items have none)."""
        if self.opts == "include":
            return []
        if self.opts == "multi":
            return list(self.segs)
        return [(self.text, self.opts)]


def _items():
    I = Item
    return [
        # ---- typedefs -------------------------------------------------------------
        I("td_prim", "typedef unsigned short td_us;", ["td_us", "td_us *", "td_us[3]"], core=True, cls=["typedef"]),
        I("td_ptr", "typedef const char *td_cstr;", ["td_cstr", "td_cstr *"], cls=["typedef"]),
        I("td_arr", "typedef int td_arr5[5];", ["td_arr5", "td_arr5 *"], core=True, cls=["typedef", "array"]),
        I("td_mat", "typedef long td_mat[2][3];", ["td_mat"], cls=["typedef", "array"]),
        I("td_fn", "typedef int (*td_fn)(int, char *);", ["td_fn", "td_fn[2]"], core=True, cls=["typedef", "fnptr"]),
        I("td_fnv", "typedef void (*td_fnv)(const char *, ...);", ["td_fnv"], cls=["typedef", "fnptr", "ellipsis"]),
        I("td_fn_s", "typedef struct S0 *(*td_fns)(struct S0 *, int);", ["td_fns"], cls=["typedef", "fnptr"]),
        I("td_tagged", "typedef struct TS { int a; short b; } td_ts;", ["td_ts", "struct TS", "td_ts *"], core=True,
          tagged={"td_ts": "struct TS"}, cls=["typedef", "struct", "tagged_typedef"]),
        I("td_s0", "typedef struct S0 td_s0;", ["td_s0 *", "struct S0 *"], tagged={"td_s0": "struct S0"},
          cls=["typedef", "tagged_typedef"]),
        I("td_utag", "typedef union TU { int a; char b; } td_tu;", ["td_tu", "union TU"],
          tagged={"td_tu": "union TU"}, cls=["typedef", "union", "tagged_typedef"]),
        I("td_anon", "typedef struct { short h; long l; } anon_t;", ["anon_t", "anon_t *", "anon_t[2]"], core=True,
          cls=["typedef", "struct", "anonymous"]),
        I("td_ps0", "typedef struct S0 *td_ps0;", ["td_ps0"], cls=["typedef"]),
        I("td_chain", "typedef td_us td_us2; typedef td_us2 *td_pus2;", ["td_us2", "td_pus2"], core=True,
          needs=["td_prim"], cls=["typedef", "chain"]),
        I("td_ea", "typedef enum { TA_X = 1, TA_Y } td_ea;", ["td_ea", "td_ea *"], consts=["TA_X", "TA_Y"], core=True,
          cls=["typedef", "enum", "anonymous"]),
        I("td_et", "typedef enum TE { TE_X, TE_Y = 300 } td_et;", ["td_et", "enum TE"], consts=["TE_X", "TE_Y"],
          tagged={"td_et": "enum TE"}, cls=["typedef", "enum", "tagged_typedef"]),
        I("td_big", "typedef char td_big[2147483647];", ["td_big"], cls=["typedef", "array", "len_2p31_minus_1"]),
        # ---- structs / unions ---------------------------------------------------------
        I("s_plain", "struct S0 { int a; char b; };", ["struct S0", "struct S0 *", "struct S0[3]"], core=True,
          cls=["struct"]),
        I("s_bits", "struct SB { unsigned int x:3; int y:5; unsigned long long z:33; char c; int :0; short w:9; "
                    "unsigned char v:8; };", ["struct SB"], core=True, cls=["struct", "bitfield"]),
        I("s_nested", "struct SN { struct S0 in; struct S0 *pin; struct S0 arr[2]; };", ["struct SN"], core=True,
          needs=["s_plain"], cls=["struct", "nested"]),
        I("s_anonm", "struct SA { int k; struct { char p; short q; }; union { int u1; float u2; }; };",
          ["struct SA"], core=True, cls=["struct", "anonymous_member"]),
        I("s_anon2", "struct SA2 { struct { char p2; struct { long deep; int db:4; }; }; char z2; };",
          ["struct SA2"], cls=["struct", "anonymous_member", "bitfield"]),
        I("s_flex", "struct SF { int n; char tail[]; };", ["struct SF", "struct SF *"], core=True,
          cls=["struct", "flexible"]),
        I("s_self", "struct SL { struct SL *next; int v; };", ["struct SL"], core=True, cls=["struct", "self_pointer"]),
        I("s_opaque", "struct SO;", ["struct SO *"], core=True, cls=["struct", "opaque"]),
        I("s_cb", "struct SC { int (*cb)(struct SC *, int); void *ud; };", ["struct SC"], core=True,
          cls=["struct", "fnptr"]),
        I("u_plain", "union U0 { int i; char c[6]; double d; };", ["union U0", "union U0 *"], core=True, cls=["union"]),
        I("u_bits", "union UB { int a:3; unsigned b:20; long long c; };", ["union UB"], cls=["union", "bitfield"]),
        I("s_packed", "struct SP { char a; int b; short c; };", ["struct SP"], opts="packed", cls=["struct", "packed"]),
        I("s_mutual", "struct M1 { struct M2 *p; }; struct M2 { struct M1 m; int z; };", ["struct M1", "struct M2"],
          cls=["struct", "nested"]),
        I("s_efield", "struct SE { enum EIN { EIN_A, EIN_B = -2 } e; char t; };", ["struct SE", "enum EIN"],
          consts=["EIN_A", "EIN_B"], cls=["struct", "enum"]),
        # ---- enums ---------------------------------------------------------------------
        I("e_small", "enum E_small { ES_A, ES_B, ES_C = 10 };", ["enum E_small", "enum E_small *"],
          consts=["ES_A", "ES_B", "ES_C"], core=True, cls=["enum", "enum_uint"]),
        I("e_neg", "enum E_neg { EN_A = -1, EN_B = 5 };", ["enum E_neg"], consts=["EN_A", "EN_B"], core=True,
          cls=["enum", "enum_int"]),
        I("e_big", "enum E_big { EB_A, EB_B = 4294967296 };", ["enum E_big"], consts=["EB_A", "EB_B"], core=True,
          cls=["enum", "enum_ulong"]),
        I("e_negbig", "enum E_nb { ENB_A = -4294967297, ENB_B = 1 };", ["enum E_nb"], consts=["ENB_A", "ENB_B"],
          cls=["enum", "enum_long"]),
        I("e_u32", "enum E_u32 { EU_A = 4294967295, EU_Z = 0 };", ["enum E_u32"], consts=["EU_A", "EU_Z"],
          cls=["enum", "enum_uint"]),
        I("e_i32", "enum E_i32 { EI_A = -2147483648, EI_B = 2147483647 };", ["enum E_i32"], consts=["EI_A", "EI_B"],
          cls=["enum", "enum_int"]),
        I("e_anon", "enum { EA_P = 3, EA_Q };", [], consts=["EA_P", "EA_Q"], core=True, cls=["enum", "anonymous"]),
        # ---- integer constants -----------------------------------------------------------
        I("c_def", "#define K_DEF 12\n#define K_ZERO 0\n", consts=["K_DEF", "K_ZERO"], core=True, cls=["constant"]),
        I("c_edge", "#define K_HEX 0x7fffffffffffffff\n#define K_NEG -9223372036854775808\n#define K_OCT 010\n"
                    "#define K_M1 -1\n#define K_2P63 9223372036854775808\n",
          consts=["K_HEX", "K_NEG", "K_OCT", "K_M1", "K_2P63"], core=True, cls=["constant", "constant_64bit_edge"]),
        I("c_u64", "#define K_U64 18446744073709551615\n", consts=["K_U64"], cls=["constant", "constant_64bit_edge"]),
        I("c_static", "static const int K_SC = -3; static const unsigned long long K_SCU = 0xFFFFFFFFFFFFFFFF;",
          consts=["K_SC", "K_SCU"], cls=["constant"]),
        I("c_2p64", "#define K_2P64 18446744073709551616\n", consts=["K_2P64"], beyond64=["K_2P64"],
          cls=["constant", "constant_beyond_64_bits"]),
        I("c_mbig", "#define K_MBIG -9223372036854775809\n", consts=["K_MBIG"], beyond64=["K_MBIG"],
          cls=["constant", "constant_beyond_64_bits"]),
        I("c_arrlen", "#define K_LEN 6\nstruct SK { char buf[K_LEN]; };", ["struct SK"], consts=["K_LEN"],
          cls=["constant", "struct"]),
        # ---- functions of the test library ----------------------------------------------
        I("f_prim", "int f_inc(int); double f_dbl(double, float);", funcs=["f_inc", "f_dbl"], core=True,
          cls=["function"]),
        I("f_void", "void f_void(void);", funcs=["f_void"], cls=["function"]),
        I("f_var", "int f_var(int, ...);", funcs=["f_var"], core=True, cls=["function", "ellipsis"]),
        I("f_s0", "struct S0 f_s0(struct S0);", funcs=["f_s0"], needs=["s_plain"], cls=["function", "struct_by_value"]),
        I("f_ps0", "int f_ps0(struct S0 *);", funcs=["f_ps0"], core=True, cls=["function"]),
        I("f_cb", "int f_cb(int (*)(int), int);", funcs=["f_cb"], cls=["function", "fnptr"]),
        I("f_file", "int f_file(FILE *);", funcs=["f_file"], core=True, uses_file=True, cls=["function", "FILE"]),
        I("f_enum", "enum E_small f_enum(enum E_small);", funcs=["f_enum"], needs=["e_small"], cls=["function", "enum"]),
        I("f_td", "td_us f_td(td_us); char *f_str(const char *);", funcs=["f_td", "f_str"], needs=["td_prim"], cls=["function"]),
        I("f_anon", "anon_t *f_anon(anon_t *);", funcs=["f_anon"], needs=["td_anon"], cls=["function"]),
        # ---- globals of the test library ---------------------------------------------------
        I("g_int", "extern int g_int;", globs=["g_int"], core=True, cls=["global"]),
        I("g_misc", "extern unsigned char g_uchar; extern long long g_ll; extern double g_double;",
          globs=["g_uchar", "g_ll", "g_double"], cls=["global"]),
        I("g_arr", "extern int g_arr[4]; extern int g_open[];", globs=["g_arr", "g_open"], core=True,
          arrays=["g_arr", "g_open"], cls=["global", "array"]),
        I("g_ptr", "extern char *g_str; extern int (*g_fp)(int);", globs=["g_str", "g_fp"], cls=["global", "fnptr"]),
        I("g_s0", "extern struct S0 g_s0;", globs=["g_s0"], core=True, needs=["s_plain"], cls=["global", "struct"]),
        I("g_enum", "extern enum E_small g_enum;", globs=["g_enum"], needs=["e_small"], enum_typed=["g_enum"],
          cls=["global", "enum"]),
        I("g_file", "extern FILE *g_file;", globs=["g_file"], uses_file=True, cls=["global", "FILE"]),
        I("g_anon", "extern anon_t g_anon;", globs=["g_anon"], needs=["td_anon"], cls=["global", "struct"]),
        I("g_const", "extern const int g_cint;", globs=[], consts=["g_cint"], cls=["constant_without_value"]),
        # ---- declarations included from a second FFI -----------------------------------------
        I("inc", None, ["inc_t", "struct incS", "enum incE", "inc_u8", "inc_t *"], consts=["IE0", "IE1", "INC_K"],
          opts="include", core=True, cls=["include"]),
        I("inc_user", "struct IU { inc_t v; struct incS *p; enum incE e; inc_u8 b; };", ["struct IU"], core=True,
          needs=["inc"], cls=["include", "struct"]),
    ] + _ext_items()


def _ext_items():
    """Items added in the audit round (.cache/audit/C11.md, gaps 2-7).  They are 'ext': see enumerate_space()."""
    def I(*a, **k):
        k["ext"] = True
        return Item(*a, **k)
    return [
        # ---- gap 2: struct/union/enum with neither tag nor typedef name ('$N'), reached only through a use ----
        I("s_unf", "struct SX { struct { int a; char b; } in; int t; };", ["struct SX", "struct SX *"], core=True,
          cls=["struct", "unnamed_aggregate"]),
        I("s_unp", "struct SY { struct { int a; } *p; union { int u; float f; } arr[2]; enum { SY_A = 4, SY_B } e; };",
          ["struct SY"], consts=["SY_A", "SY_B"], cls=["struct", "union", "enum", "unnamed_aggregate"]),
        I("td_np", "typedef struct { int x; } *td_np; typedef union { int u; char c; } *td_up; "
                   "typedef enum { Q0, Q1 = 7 } *td_ep;", ["td_np", "td_up", "td_ep", "td_np *"], consts=["Q0", "Q1"],
          core=True, cls=["typedef", "unnamed_aggregate", "named_pointer"]),
        I("td_two", "typedef struct { int x; char y; } td_an, *td_anp;", ["td_an", "td_anp", "td_an *"],
          cls=["typedef", "anonymous", "named_pointer"]),
        I("f_un", "void f_un(struct { int a; } *);", funcs=["f_un"], cls=["function", "unnamed_aggregate"]),
        I("g_un", "extern struct { int a; int b; } g_un;", globs=["g_un"], cls=["global", "unnamed_aggregate"]),
        # ---- gap 3: typedef of a function TYPE, functions declared through it, more function shapes --------------
        I("td_fntype", "typedef int fn_t(int); fn_t f_viafn; struct F { fn_t *cb; }; typedef fn_t *pfn_t;",
          ["fn_t *", "struct F", "pfn_t", "pfn_t[2]"], funcs=["f_viafn"], core=True,
          cls=["typedef", "function_typedef", "function", "fnptr"]),
        I("f_arrparam", "int f_arrparam(struct S0 a[2]);", funcs=["f_arrparam"], needs=["s_plain"],
          cls=["function", "array_parameter"]),
        I("f_retfp", "int (*f_retfp(int))(int);", funcs=["f_retfp"], cls=["function", "fnptr", "returns_fnptr"]),
        I("f_seven", "int f_seven(int, int, int, int, int, int, int);", funcs=["f_seven"], cls=["function"]),
        I("f_tdarr", "int f_tdarr(td_arr5);", funcs=["f_tdarr"], needs=["td_arr"], cls=["function", "array_parameter"]),
        I("f_cplx", "float _Complex f_cplx(float _Complex);", funcs=["f_cplx"], cls=["function", "complex"]),
        I("f_prims2", "_Bool f_bool(_Bool); wchar_t f_wc(wchar_t); long double f_ld(long double);",
          funcs=["f_bool", "f_wc", "f_ld"], cls=["function", "bool_wchar_longdouble"]),
        # ---- gap 4: more kinds of global variable ------------------------------------------------------------------
        I("g_more", "extern _Bool g_b; extern float g_f; extern long double g_ld; extern wchar_t g_w; "
                    "extern int g_m[2][3];", globs=["g_b", "g_f", "g_ld", "g_w", "g_m"], arrays=["g_m"],
          cls=["global", "bool_wchar_longdouble", "array"]),
        I("g_aggr", "extern union U0 g_u; extern struct S0 g_as[2]; extern struct S0 *g_ps;",
          globs=["g_u", "g_as", "g_ps"], arrays=["g_as"], needs=["u_plain", "s_plain"],
          cls=["global", "union", "struct", "array"]),
        I("g_constq", "extern const double g_cd; extern const char *const g_ccs; extern const struct S0 g_cs0;",
          consts=["g_cd", "g_ccs", "g_cs0"], needs=["s_plain"], cls=["constant_without_value"]),
        # ---- gap 5: degenerate aggregates and enums ------------------------------------------------------------------
        I("s_empty", "struct Empty {}; union EmptyU {}; struct HasEmpty { struct Empty e; int z; };",
          ["struct Empty", "union EmptyU", "struct HasEmpty", "struct Empty *"], core=True,
          cls=["struct", "union", "empty_aggregate"]),
        I("e_opaque", "enum OE; typedef enum OE oe_t;", ["oe_t", "enum OE"], tagged={"oe_t": "enum OE"},
          cls=["enum", "typedef", "enum_without_enumerators"]),
        I("s_bits2", "struct SB2 { _Bool a:1; char c:3; long d:40; unsigned long long e:64; signed char f:8; };",
          ["struct SB2"], cls=["struct", "bitfield"]),
        I("s_varlast", "struct V1 { int n; char t[]; }; struct V2 { int k; struct V1 v; };", ["struct V1", "struct V2"],
          cls=["struct", "flexible", "nested"]),
        I("s_flexun", "struct FU { int n; struct { int a; } items[]; };", ["struct FU"],
          cls=["struct", "flexible", "unnamed_aggregate"]),
        # ---- gap 6: cdef(..., override=True) ------------------------------------------------------------------------------
        I("ov_td", None, ["T1", "struct O", "T1 *"], opts="multi", core=True,
          segs=[("typedef int T1; struct O { T1 a; char b; };", None), ("typedef long T1;", "override")],
          cls=["override", "typedef", "struct"]),
        # ('#define K 1' then '#define K 2', 'static const' twice, a second 'enum E {...}' or 'struct S {...}' are rejected
        # in-line even with override=True; these are the shapes it accepts)
        I("ov_anon", None, ["ot", "struct UsesOt", "ot *"], opts="multi",
          segs=[("typedef struct { int a; } ot; struct UsesOt { ot first; char c; };", None),
                ("typedef struct { long a; long b; } ot;", "override")], cls=["override", "typedef", "anonymous", "struct"]),
        I("ov_constvar", None, globs=["g_cint"], opts="multi",
          segs=[("extern const int g_cint;", None), ("extern int g_cint;", "override")],
          cls=["override", "global", "constant_and_variable_same_name"]),
        I("ov_opq", None, ["struct OS", "struct OS *", "os_t"], opts="multi",
          segs=[("struct OS; typedef struct OS os_t;", None), ("struct OS { long a; long b; };", "override")],
          tagged={"os_t": "struct OS"}, cls=["override", "struct", "opaque", "tagged_typedef"]),
        I("ov_fn", None, funcs=["f_void"], opts="multi",
          segs=[("void f_void(void);", None), ("int f_void(int);", "override")], cls=["override", "function"]),
        I("ov_glob", None, globs=["g_uchar"], opts="multi",
          segs=[("extern unsigned char g_uchar;", None), ("extern signed char g_uchar;", "override")],
          cls=["override", "global"]),
        # ---- gap 7: a second included FFI (opaque struct completed by the includer, unnamed struct behind a typedef) ----
        I("inc2", None, ["inc_po", "inc_pa", "inc_an", "struct incO *", "enum incE2", "inc_an[2]"],
          consts=["JE0", "JE1", "INC_K2"], opts="include", base=1, cls=["include", "include_second_base"]),
        I("inc2_user", "struct incO { int z; inc_an by_value; }; struct IU2 { inc_po p; inc_pa a; inc_an v; "
                       "struct incO o; enum incE2 e; };", ["struct incO", "struct IU2", "inc_po"], needs=["inc2"],
          cls=["include", "include_second_base", "struct", "completes_included_opaque"]),
        I("inc_redecl", "typedef unsigned char inc_u8; struct incS; struct IR { inc_u8 r; struct incS *q; };",
          ["inc_u8", "struct incS", "struct IR"], needs=["inc"], cls=["include", "redeclares_included"]),
    ]


# gap 1: "wide" cdefs -- every table of the generated module gets more than 127 / 128 / 255 / 256 (thorough: 65 535)
# entries, so that the second and third byte of the 4-byte opcodes / indexes are used and the bisection of the sorted
# tables takes more than one step
WIDE_QUICK = (127, 128, 129, 255, 256, 257)
WIDE_THOROUGH = (34000,)   # 34000 array typedefs = 68000 slots of _types: type indexes beyond 65 535 (third byte)
WIDE_SYMS = 300          # wf_000..wf_299 / wg_000..wg_299 exist in the test library


def _wide_builder(n):
    def build():
        out = []
        types = []
        consts = []
        funcs = []
        globs = []
        full = n <= 1000
        # The in-line parser re-declares every known typedef name in front of EVERY string it parses, so one in-line
        # typeof() costs O(N) (2 s for N = 20000).  For the big N only three typedef names are looked up in-line; for
        # all the others the in-line type is read from the field of 'struct wmany'
        # declared with that typedef (Item.via_fields) and compared with the module's typeof(name).
        probe = set(range(n)) if full else set((0, n // 2, n - 1))
        for i in range(n):
            out.append("typedef int wa%d[%d];" % (i, i + 1))
            if i in probe:
                types.append("wa%d" % i)
        if full:
            for i in range(n):
                out.append("enum we%d { wv%d = %d };" % (i, i, i))
                out.append("struct ws%d { wa%d f; enum we%d e; unsigned int b:%d; };" % (i, i, i, 1 + i % 32))
                types.append("enum we%d" % i)
                types.append("struct ws%d" % i)
                consts.append("wv%d" % i)
            for i in range(min(n, WIDE_SYMS)):
                out.append("int wf_%03d(struct ws%d *); extern struct ws%d *wg_%03d;" % (i, i, i, i))
                funcs.append("wf_%03d" % i)
                globs.append("wg_%03d" % i)
        out.append("struct wmany { %s };" % " ".join("wa%d m%d;" % (i, i) for i in range(n)))
        types.append("struct wmany")
        return "\n".join(out), tuple(types), tuple(consts), tuple(funcs), tuple(globs)
    return build


def _wide_items():
    out = []
    for n in WIDE_QUICK + WIDE_THOROUGH:
        it = Item("wide%d" % n, None, lazy=_wide_builder(n), ext=True, cls=["wide", "wide_%d" % n])
        if n > 1000:
            it.via_fields = ("struct wmany", n)
        out.append(it)
    return out


BASE_CDEF = ("typedef struct { int x; short y; } inc_t; struct incS { short a; inc_t t; int bf:5; }; "
             "enum incE { IE0, IE1 = 9 }; typedef unsigned char inc_u8;\n#define INC_K 7\n")
BASE2_CDEF = ("struct incO; typedef struct incO *inc_po; typedef struct { int q; } *inc_pa; "
              "typedef struct { long w; char c; } inc_an; enum incE2 { JE0 = -1, JE1 };\n#define INC_K2 -8\n")
BASES = (BASE_CDEF, BASE2_CDEF)
SPLIT = "@split"        # pseudo key at the head of a case: every item (segment) is its own cdef() call

# declarations emit_python_code() is known to refuse: only run as singletons and in pairs
REFUSED = [
    Item("r_2g", "typedef char td_2g[2147483648];", ["td_2g"], cls=["array", "len_2p31"]),
    Item("r_pack4", "struct SP4 { char a; int b; };", ["struct SP4"], opts="pack4", cls=["struct", "pack4"]),
]

ITEMS = _items()
WIDE = _wide_items()
BYKEY = {it.key: it for it in ITEMS + REFUSED + WIDE}
assert len(BYKEY) == len(ITEMS) + len(REFUSED) + len(WIDE)
REFUSAL_TYPES = ("OverflowError", "NotImplementedError", "VerificationError")

_TESTLIB = None          # path, set by the driver before the pool forks
_W = {}                  # per-worker state


# ---------------------------------------------------------------------------------------

def build_testlib():
    d = build.scratch_shared()
    so = os.path.join(d, "libc11test.so")
    with open(os.path.join(build.HARNESS, "c11_testlib.c")) as f:
        src = f.read()
    build.cc(src, so, shared=True)
    return so


def _worker_state():
    if _W.get("pid") != os.getpid():
        import cffi
        _W.clear()
        _W["pid"] = os.getpid()
        _W["n"] = itertools.count()
        d = build.scratch()
        if d not in sys.path:
            sys.path.insert(0, d)
        names = []
        for i, text in enumerate(BASES):
            name = "c11base%d_%d" % (i, os.getpid())
            base_gen = cffi.FFI()
            base_gen.cdef(text)
            base_gen.set_source(name, None)
            with contextlib.redirect_stdout(io.StringIO()):
                base_gen.emit_python_code(os.path.join(d, name + ".py"))
            names.append(name)
        _W["base_names"] = names
        _W["cdll"] = ctypes.CDLL(_TESTLIB)
    return _W


class Bases(object):
    """The FFIs a case includes, made on demand and fresh for every case (in-line model objects carry completion
    state; a base shared between successive including FFIs is a history -- that belongs to C34 -- not a cdef)."""

    def __init__(self, names=None):
        self.names = names          # set_source() names for the generator side, None for the in-line side
        self.made = {}

    def get(self, i):
        if i not in self.made:
            import cffi
            f = cffi.FFI()
            f.cdef(BASES[i])
            if self.names is not None:
                f.set_source(self.names[i], None)
            self.made[i] = f
        return self.made[i]


def parse_case(keys):
    """A case is a tuple of item keys, optionally headed by SPLIT.  -> (split, [Item])"""
    keys = list(keys)
    split = bool(keys) and keys[0] == SPLIT
    if split:
        keys = keys[1:]
    seq = [BYKEY[k] for k in keys]
    for it in seq:
        it._force()
    return split, seq


def plan_calls(seq, split=False):
    """The calls an item sequence stands for: ("include", base index) | ("cdef", text, kwargs).  Consecutive
    segments with the same options form ONE cdef() call, unless `split` (then every segment is its own call);
    override=True segments are never merged."""
    calls = []
    last_opts = "none-yet"
    for it in seq:
        if it.opts == "include":
            calls.append(("include", it.base))
            last_opts = "none-yet"
            continue
        for text, opts in it.segments():
            if not split and opts == last_opts and opts != "override":
                calls[-1] = ("cdef", calls[-1][1] + "\n" + text, calls[-1][2])
                continue
            kw = {}
            if opts == "packed":
                kw["packed"] = True
            elif opts == "pack4":
                kw["pack"] = 4
            elif opts == "override":
                kw["override"] = True
            calls.append(("cdef", text, kw))
            last_opts = opts
    return calls


def apply_items(ffi, seq, bases, split=False):
    """Feed the item sequence to an FFI."""
    for c in plan_calls(seq, split):
        if c[0] == "include":
            ffi.include(bases.get(c[1]))
        else:
            ffi.cdef(c[1], **c[2])


def cdef_text(seq, split=False):
    out = []
    for c in plan_calls(seq, split):
        if c[0] == "include":
            out.append("ffi.include(base%d)   /* base%d.cdef: %s */" % (c[1], c[1], BASES[c[1]].strip()))
        else:
            text = c[1] if len(c[1]) < 1500 else c[1][:700] + "\n/* ... %d characters ... */\n" % (len(c[1]) - 1400) + c[1][-700:]
            out.append("ffi.cdef(%s)   /* one call */\n%s" % (", ".join("%s=%r" % kv for kv in sorted(c[2].items())), text))
    return "\n".join(out)


def case_text(keys):
    split, seq = parse_case(keys)
    return cdef_text(seq, split)


def _err(e):
    return "%s: %s" % (type(e).__name__, str(e).split("\n")[0][:160])


class Comparer(object):
    """Structural comparison of an in-line ctype with an out-of-line ctype."""

    def __init__(self, fin, fo):
        self.fin = fin
        self.fo = fo
        self.bad = []          # (what, path, inline value, module value)
        self.seen = set()

    def nominal(self, ct, depth=0):
        """Does the type involve a struct, union or enum (types that every FFI builds for itself)?"""
        k = ct.kind
        if k in ("struct", "union", "enum"):
            return True
        if k in ("pointer", "array"):
            return self.nominal(ct.item, depth + 1)
        if k == "function":
            return self.nominal(ct.result, depth + 1) or any(self.nominal(a, depth + 1) for a in ct.args)
        return False

    def top(self, a, b, path):
        self.cmp(a, b, path)
        if a is not b and not self.nominal(a) and not self.nominal(b):
            self.bad.append(("not_same_object", path, a.cname, b.cname))

    def cmp(self, a, b, path):
        if a is b:
            return
        if (id(a), id(b)) in self.seen:
            return
        self.seen.add((id(a), id(b)))
        if a.kind != b.kind:
            self.bad.append(("kind", path, a.kind, b.kind))
            return
        k = a.kind
        if k in ("primitive", "void"):
            self.bad.append(("not_same_object", path, a.cname, b.cname))
        elif k == "pointer":
            self.cmp(a.item, b.item, path + "*")
        elif k == "array":
            if a.length != b.length:
                self.bad.append(("array_length", path, a.length, b.length))
            self.cmp(a.item, b.item, path + "[]")
        elif k == "function":
            if a.ellipsis != b.ellipsis or a.abi != b.abi:
                self.bad.append(("function_flags", path, (a.ellipsis, a.abi), (b.ellipsis, b.abi)))
            if len(a.args) != len(b.args):
                self.bad.append(("function_nargs", path, len(a.args), len(b.args)))
            else:
                for i, (x, y) in enumerate(zip(a.args, b.args)):
                    self.cmp(x, y, path + "(arg%d)" % i)
            self.cmp(a.result, b.result, path + "(result)")
        elif k in ("struct", "union"):
            if a.cname != b.cname:
                self.bad.append(("type_name", path, a.cname, b.cname))
            fa = self._fields(a)
            fb = self._fields(b)
            if isinstance(fb, Exception) and not isinstance(fa, Exception):
                self.bad.append(("module_fields_error", path, "ok", _err(fb)))
                return
            if isinstance(fa, Exception):
                return                       # the in-line FFI cannot complete it: nothing to equal
            if (fa is None) != (fb is None):
                self.bad.append(("opaque", path, fa is None, fb is None))
                return
            if fa is None:
                return
            sa = self._size(self.fin, a)
            sb = self._size(self.fo, b)
            if sa != sb:
                self.bad.append(("size_align", path, sa, sb))
            if [n for n, _ in fa] != [n for n, _ in fb]:
                self.bad.append(("field_names", path, [n for n, _ in fa], [n for n, _ in fb]))
                return
            for (n, x), (_, y) in zip(fa, fb):
                pa = (x.offset, x.bitshift, x.bitsize, x.flags)
                pb = (y.offset, y.bitshift, y.bitsize, y.flags)
                if pa != pb:
                    what = "field_bits" if (x.bitsize, x.bitshift) != (y.bitsize, y.bitshift) else "field_offset"
                    self.bad.append((what, path + "." + n, pa, pb))
                self.cmp(x.type, y.type, path + "." + n)
        elif k == "enum":
            if a.cname != b.cname:
                self.bad.append(("type_name", path, a.cname, b.cname))
            if dict(a.elements) != dict(b.elements) or dict(a.relements) != dict(b.relements):
                self.bad.append(("enumerators", path, sorted(a.relements.items()), sorted(b.relements.items())))
            ba = self._enum_base(self.fin, a)
            bb = self._enum_base(self.fo, b)
            if ba != bb:
                self.bad.append(("enum_base", path, ba, bb))
        else:
            self.bad.append(("unknown_kind", path, k, k))

    @staticmethod
    def _fields(ct):
        try:
            f = ct.fields
        except Exception as e:
            return e
        return None if f is None else list(f)

    @staticmethod
    def _size(ffi, ct):
        try:
            return (ffi.sizeof(ct), ffi.alignof(ct))
        except Exception as e:
            return ("error", type(e).__name__)

    @staticmethod
    def _enum_base(ffi, ct):
        return (ffi.sizeof(ct), ffi.alignof(ct), int(ffi.cast(ct, -1)) < 0)


def norm_value(ffi, v):
    """A value read from lib.<global>, in a form comparable across the two FFIs."""
    if isinstance(v, ffi.CData):
        ct = ffi.typeof(v)
        if ct.kind in ("pointer", "function"):
            return ("ptr", int(ffi.cast("intptr_t", v)))
        if ct.kind == "array":
            addr = int(ffi.cast("intptr_t", v))
            if ct.length is None:
                return ("open_array", addr)
            return ("array", addr, bytes(ffi.buffer(v)))
        if ct.kind in ("struct", "union"):
            p = ffi.addressof(v)
            return ("aggregate", int(ffi.cast("intptr_t", p)), bytes(ffi.buffer(p)))
        try:
            return ("cdata_int", int(v))
        except TypeError:
            return ("cdata_float", float(v))
    return ("py", v)


def classify_sig(seq, what, site, a, b, extra=None):
    """The small structured signature of a disagreement; known root causes are recognised from the INPUT."""
    cause = "other"
    if what == "type_name":
        for it in seq:
            for td, tagged in it.tagged.items():
                if a == td and b == tagged:
                    cause = "tagged_typedef_target"
    elif what == "list_types":
        if any(it.uses_file for it in seq):
            try:
                ia, ib = a, b
                if (sorted(ia[0] + ["FILE"]) == sorted(ib[0]) and sorted(ia[1] + ["_IO_FILE"]) == sorted(ib[1])
                        and sorted(ia[2]) == sorted(ib[2])):
                    cause = "FILE_entries"
            except Exception:
                pass
    elif what == "global_exposed_only_by_module":
        if any(extra in it.enum_typed for it in seq):
            cause = "enum_typed_variable"
    elif what in ("constant_value", "constant_missing"):
        if any(extra in it.beyond64 for it in seq):
            cause = "beyond_64_bits"
    # ---- root causes found by the audit-round families (recognised from the INPUT, as above) --------------------
    allcls = set()
    for it in seq:
        allcls.update(it.cls)
    if cause == "other" and what in LAYOUT_KINDS and "include_second_base" in allcls and \
            allcls & {"unnamed_aggregate", "anonymous_member"}:
        # the included FFI and the including cdef both have an unnamed aggregate: both parsers call theirs '$1', the model
        # types compare equal by name, and the recompiler gives both ONE entry in its type table
        cause = "dollar_name_shared_with_included_ffi"
    if cause == "other" and "constant_and_variable_same_name" in allcls and site in ("global", "dir") and \
            "g_cint" in str(extra):
        # 'extern const int g;' then cdef('extern int g;', override=True) keeps BOTH declarations; the module's sorted
        # table of globals then has two entries called g and the bisection finds one or the other
        cause = "constant_and_variable_same_name"
    return {"kind": what, "cause": cause, "site": site}


LAYOUT_KINDS = ("field_names", "size_align", "field_offset", "field_bits", "kind", "type_name", "opaque",
                "module_fields_error", "array_length", "enumerators", "enum_base")


def run_case(keys):
    """One cdef.  Returns (status, classes, mismatches[(sig, info)])."""
    import cffi
    import warnings
    warnings.simplefilter("ignore")
    W = _worker_state()
    split, seq = parse_case(keys)
    out = []
    classes = []

    def bad(what, site, a, b, extra=None):
        out.append((classify_sig(seq, what, site, a, b, extra),
                    {"what": what, "where": site, "inline": a, "module": b, "extra": extra}))

    # ---- in-line ---------------------------------------------------------------------
    fin = cffi.FFI()
    try:
        apply_items(fin, seq, Bases(), split)
    except Exception as e:
        return ("rejected_inline", [type(e).__name__], [])
    # ---- generator -----------------------------------------------------------------------
    fgen = cffi.FFI()
    apply_items(fgen, seq, Bases(W["base_names"]), split)
    name = "c11m_%d_%d" % (os.getpid(), next(W["n"]))
    fgen.set_source(name, None)
    path = os.path.join(build.scratch(), name + ".py")
    try:
        with contextlib.redirect_stdout(io.StringIO()):
            fgen.emit_python_code(path)
    except Exception as e:
        en = type(e).__name__
        try:
            os.unlink(path)
        except OSError:
            pass
        inline_ok = True
        for it in seq:
            for t in it.types:
                try:
                    ct = fin.typeof(t)
                    if ct.kind in ("struct", "union"):
                        ct.fields
                except Exception:
                    inline_ok = False
        if not inline_ok:
            return ("inline_incomplete", [en], [])
        if en in REFUSAL_TYPES or (en == "TypeError" and "opaque" in str(e)):
            return ("emit_refused", [en], [])
        bad("emit_internal_error", en, "accepted", _err(e))
        return ("emit_failed", [en], out)
    import importlib.util
    try:
        spec = importlib.util.spec_from_file_location(name, path)
        mod = importlib.util.module_from_spec(spec)
        spec.loader.exec_module(mod)
    except Exception as e:
        with open(path) as f:
            src = f.read()
        os.unlink(path)
        bad("module_import_error", type(e).__name__, "accepted", _err(e), extra=src[-1500:])
        return ("import_failed", [type(e).__name__], out)
    os.unlink(path)
    fo = mod.ffi

    # ---- types ---------------------------------------------------------------------------
    cmpr = Comparer(fin, fo)
    nprobe = 0
    completes_included = any("completes_included_opaque" in it.cls for it in seq)
    overridden_by_variable = set()
    for it in seq:
        if "constant_and_variable_same_name" in it.cls:
            overridden_by_variable.update(it.globs)
    for it in seq:
        for t in it.types:
            try:
                a = fin.typeof(t)
            except Exception as e:
                classes.append("probe_excluded.inline_typeof_raises")
                continue
            nprobe += 1
            try:
                b = fo.typeof(t)
            except Exception as e:
                if isinstance(e, NotImplementedError) and completes_included:
                    # 'struct incO' is opaque in the ffi.include(), but no longer in the ffi doing the include
                    # (workaround: ...): the generated module refuses explicitly -- only, it can do so no earlier than
                    # when the type is first used.  Same rule as for the refusals of emit_python_code(): excluded, counted.
                    nprobe -= 1
                    classes.append("probe_excluded.module_refuses_completed_included_opaque(NotImplementedError)")
                    continue
                bad("module_typeof_error", it.cls[0], "ok", _err(e), extra=t)
                continue
            n0 = len(cmpr.bad)
            cmpr.top(a, b, t)
            for what, p, x, y in cmpr.bad[n0:]:
                bad(what, it.cls[0], x, y, extra=p)

    # ---- typedefs of the big wide cdef: in-line reference = the type of the field declared with the typedef --------
    for it in seq:
        if it.via_fields:
            sname, n = it.via_fields
            try:
                fa = dict(fin.typeof(sname).fields)
            except Exception as e:
                raise InfraError("in-line fields of %s: %s" % (sname, _err(e)))
            for i in range(n):
                a = fa["m%d" % i].type
                nprobe += 1
                try:
                    b = fo.typeof("wa%d" % i)
                except Exception as e:
                    bad("module_typeof_error", it.cls[0], "ok", _err(e), extra="wa%d" % i)
                    continue
                if a is not b:
                    n0 = len(cmpr.bad)
                    cmpr.top(a, b, "wa%d" % i)
                    for what, p, x, y in cmpr.bad[n0:]:
                        bad(what, it.cls[0], x, y, extra=p)
                    if len(out) > 50:
                        break

    # ---- list_types ----------------------------------------------------------------------
    la = fin.list_types()
    lb = fo.list_types()
    la = tuple(sorted(x) for x in la)
    lb = tuple(sorted(x) for x in lb)
    if la != lb:
        bad("list_types", "list_types", [list(x) for x in la], [list(x) for x in lb])

    # ---- dlopen --------------------------------------------------------------------------
    try:
        li = fin.dlopen(_TESTLIB)
    except Exception as e:
        raise InfraError("in-line dlopen of the test library failed: %s" % _err(e))
    try:
        lo = fo.dlopen(_TESTLIB)
    except Exception as e:
        bad("module_dlopen_error", "dlopen", "ok", _err(e))
        return ("compared", classes, out)

    # ---- integer constants and enumerators -----------------------------------------------
    for it in seq:
        for c in it.consts:
            try:
                va = getattr(li, c)
            except Exception as e:
                classes.append("probe_excluded.inline_constant_has_no_value")
                continue
            nprobe += 1
            inline_ic = True
            if c in overridden_by_variable:
                # lib.<name> has a value in-line but the name is no integer constant there: it is the VARIABLE that
                # an override=True cdef put next to the constant of the same name (item ov_constvar), so the module's
                # integer_const() is not owed (the in-line FFI class has no integer_const() to ask)
                inline_ic = False
                classes.append("probe_excluded.constant_name_is_an_overriding_variable")
            try:
                vb = fo.integer_const(c) if inline_ic else va
            except Exception as e:
                bad("constant_missing", "integer_const", va, _err(e), extra=c)
                vb = va
            try:
                vc = getattr(lo, c)
            except Exception as e:
                bad("constant_missing", "lib_attr", va, _err(e), extra=c)
                vc = va
            if not (type(va) is type(vb) is type(vc) is int) or va != vb or va != vc:
                bad("constant_value", "constant", va, [vb, vc], extra=c)

    # ---- functions -------------------------------------------------------------------------
    cd = W["cdll"]
    for it in seq:
        for f in it.funcs:
            try:
                xa = getattr(li, f)
                ta = fin.typeof(xa)
                aa = int(fin.cast("intptr_t", xa))
                pa = fin.addressof(li, f)
            except Exception as e:
                classes.append("probe_excluded.inline_function_raises")
                continue
            nprobe += 1
            want = ctypes.cast(getattr(cd, f), ctypes.c_void_p).value
            if aa != want:
                raise InfraError("in-line address of %s differs from ctypes: harness broken?" % f)
            try:
                xb = getattr(lo, f)
                tb = fo.typeof(xb)
                ab = int(fo.cast("intptr_t", xb))
                pb = fo.addressof(lo, f)
            except Exception as e:
                bad("module_function_error", "function", "ok", _err(e), extra=f)
                continue
            n0 = len(cmpr.bad)
            cmpr.top(ta, tb, f)
            cmpr.top(fin.typeof(pa), fo.typeof(pb), "&" + f)
            for what, p, x, y in cmpr.bad[n0:]:
                bad(what, "function", x, y, extra=p)
            if ab != want or int(fo.cast("intptr_t", pb)) != want:
                bad("function_address", "function", aa, [ab, int(fo.cast("intptr_t", pb))], extra=f)

    # ---- global variables ----------------------------------------------------------------
    for it in seq:
        for g in it.globs:
            try:
                ra = getattr(li, g)
                va = norm_value(fin, ra)
                pa = fin.addressof(li, g)
                ta = fin.typeof(pa)
                aa = int(fin.cast("intptr_t", pa))
            except Exception as e:
                if isinstance(e, AttributeError):
                    # the in-line lib does not expose a declared global at all: the two libs expose the same set only
                    # if the module does not expose it either
                    try:
                        rb = getattr(lo, g)
                    except Exception:
                        classes.append("probe_excluded.global_exposed_by_neither")
                    else:
                        nprobe += 1
                        bad("global_exposed_only_by_module", "global", _err(e), repr(rb), extra=g)
                else:
                    classes.append("probe_excluded.inline_global_raises")
                continue
            nprobe += 1
            want = ctypes.addressof(ctypes.c_char.in_dll(cd, g))
            if aa != want:
                raise InfraError("in-line address of %s differs from ctypes: harness broken?" % g)
            try:
                rb = getattr(lo, g)
                vb = norm_value(fo, rb)
                pb = fo.addressof(lo, g)
                tb = fo.typeof(pb)
                ab = int(fo.cast("intptr_t", pb))
            except Exception as e:
                bad("module_global_error", "global", "ok", _err(e), extra=g)
                continue
            # The statement promises the variable's type and address.  For a variable declared as an array the
            # in-line FFI returns the array itself (or 'T *' for 'T x[]') from addressof() (api.py addressof_var) where
            # the module returns a pointer to the array; the type of the addressof() RESULT is not promised, so for
            # array variables (known from the input) only the address is taken from it and the variable's type is
            # compared through typeof(lib.<name>), which is a cdata on both sides.
            if g in it.arrays:
                if ta is not tb:
                    classes.append("addressof_array_global.result_type_differs(not_judged)")
                vta = vtb = None
            else:
                vta, vtb = ta, tb
            n0 = len(cmpr.bad)
            if vta is not None:
                cmpr.top(vta, vtb, "typeof(&" + g + ")")
            if isinstance(ra, fin.CData) or isinstance(rb, fin.CData):
                if isinstance(ra, fin.CData) and isinstance(rb, fin.CData):
                    cmpr.top(fin.typeof(ra), fo.typeof(rb), "typeof(lib." + g + ")")
                else:
                    bad("global_value", "global", type(ra).__name__, type(rb).__name__, extra=g)
            for what, p, x, y in cmpr.bad[n0:]:
                bad(what, "global", x, y, extra=p)
            if va != vb:
                bad("global_value", "global", va, vb, extra=g)
            if ab != want:
                bad("global_address", "global", aa, ab, extra=g)
            if g == "g_int" and type(ra) is int and type(rb) is int:
                # a store through one lib is seen through the other
                old = li.g_int
                try:
                    li.g_int = 1234567
                    if lo.g_int != 1234567:
                        bad("global_value", "global", 1234567, lo.g_int, extra="after in-line store")
                    lo.g_int = -7
                    if li.g_int != -7:
                        bad("global_value", "global", li.g_int, -7, extra="after module store")
                finally:
                    li.g_int = old
    # ---- the SET of exposed names (audit gap 4) ----------------------------------------------
    # Every name either lib lists in dir() and that was not probed above: it must be an attribute of both libs or of
    # neither ("exposes the same functions and global variables").  Nothing is judged where the in-line lib has the
    # name but cannot produce it (NotImplementedError for non-integer constants, ...): the reference has no answer.
    probed = set()
    for it in seq:
        probed.update(it.consts)
        probed.update(it.funcs)
        probed.update(it.globs)
    try:
        da = set(dir(li))
    except Exception as e:
        raise InfraError("dir() of the in-line lib failed: %s" % _err(e))
    try:
        db = set(dir(lo))
    except Exception as e:
        bad("module_dir_error", "dir", "ok", _err(e))
        db = set()
    classes.append("dir_compared")
    if da == db:
        classes.append("dir_equal")
    for n in sorted((da | db) - probed):
        if n.startswith("__"):
            continue
        try:
            xa = getattr(li, n)
            ea = None
        except AttributeError as e:
            xa, ea = None, e
        except Exception:
            classes.append("probe_excluded.inline_listed_name_raises")
            continue
        try:
            xb = getattr(lo, n)
            eb = None
        except Exception as e:
            xb, eb = None, e
        nprobe += 1
        if ea is not None and eb is None:
            bad("name_exposed_only_by_module", "dir", _err(ea), repr(xb)[:80], extra=n)
        elif ea is None and eb is not None:
            bad("name_exposed_only_by_inline", "dir", repr(xa)[:80], _err(eb), extra=n)
        elif ea is None and type(xa) is int and (type(xb) is not int or xa != xb):
            bad("constant_value", "dir", xa, [xb, xb], extra=n)
    classes.append("probes=%d" % nprobe)
    return ("compared", classes, out)


def work(block):
    res = []
    for keys in block:
        st, classes, out = run_case(keys)
        res.append((keys, st, classes, out))
    return res


# ---------------------------------------------------------------------------------------

def complete(keys):
    """The chosen items in the chosen order, each preceded by the items it needs if they are not there yet."""
    out = []

    def add(k):
        for n in BYKEY[k].needs:
            if n not in out:
                add(n)
        if k not in out:
            out.append(k)
    for k in keys:
        add(k)
    return tuple(out)


def enumerate_space(ctx):
    """Distinct completed sequences; the few expensive ones (wide cdefs) first.

    old  = the alphabet before the audit round, ext = the items added by it, core = the core items of both.
      quick:    wide cdefs (6 sizes) alone | all 1- and 2-selections of old | every ext item alone and paired with
                every core item in both orders | refused x everything | SPLIT: all 1- and 2-selections of core
      thorough: + the 34000-typedef cdef | all 2-selections of old + ext | all 3-selections of core
                | SPLIT: all 1- and 2-selections of old + ext
    """
    old = [it.key for it in ITEMS if not it.ext]
    ext = [it.key for it in ITEMS if it.ext]
    full = [it.key for it in ITEMS]
    core = [it.key for it in ITEMS if it.core]
    seen = set()

    def emit(sel, split=False):
        seq = complete(sel)
        if split:
            if len(plan_calls([BYKEY[k] for k in seq], True)) == len(plan_calls([BYKEY[k] for k in seq], False)):
                return []               # splitting changes nothing: the same calls as the merged case
            seq = (SPLIT,) + seq
        if seq not in seen:
            seen.add(seq)
            return [seq]
        return []
    for n in WIDE_QUICK + (() if ctx.quick else WIDE_THOROUGH):
        for x in emit(("wide%d" % n,)):
            yield x
    for k in (1, 2):
        for sel in itertools.permutations(old, k):
            for x in emit(sel):
                yield x
    for e in ext:
        for x in emit((e,)):
            yield x
        for y in (core if ctx.quick else full):
            if y != e:
                for x in emit((e, y)) + emit((y, e)):
                    yield x
    for r in REFUSED:
        for x in emit((r.key,)):
            yield x
        for y in full:
            for x in emit((r.key, y)) + emit((y, r.key)):
                yield x
    for k in (1, 2):
        for sel in itertools.permutations(core if ctx.quick else full, k):
            for x in emit(sel, split=True):
                yield x
    if not ctx.quick:
        for sel in itertools.permutations(core, 3):
            for x in emit(sel):
                yield x


def run(ctx):
    global _TESTLIB
    _TESTLIB = build_testlib()
    cases = list(enumerate_space(ctx))
    ncore = len([it for it in ITEMS if it.core])
    next_ = len([it for it in ITEMS if it.ext])
    nwide = len(WIDE_QUICK) + (0 if ctx.quick else len(WIDE_THOROUGH))
    ctx.log("alphabet: %d items (%d of the audit round, %d core) + %d refused + %d wide; %d cdefs" % (
        len(ITEMS), next_, ncore, len(REFUSED), nwide, len(cases)))
    # the wide cdefs are the slow cases: one block each, handed out first
    heavy = [c for c in cases if any(BYKEY[k] in WIDE for k in c if k != SPLIT)]
    hset = set(heavy)
    light = [c for c in cases if c not in hset]
    blocks = [[c] for c in sorted(heavy, key=lambda c: -max(int(k[4:]) for k in c if k.startswith("wide")))]
    blocks += list(pool.chunks(light, 120))
    evaluated = 0
    nontrivial = 0
    # (item_timeout: the 34000-typedef cdef takes 30-50 s of CPU alone; on the loaded shared machine a worker gets a
    # fraction of a core)
    for block, r in pool.pmap(work, [[b] for b in blocks], item_timeout=300 if ctx.quick else 2400):
        if isinstance(r, pool.WorkerError):
            raise InfraError("worker failed: %s" % r.tb)
        if isinstance(r, pool.Crash):
            ctx.violation({"kind": "crash"}, {"block": block, "how": r.describe()})
            continue
        for keys, st, classes, out in r:
            evaluated += 1
            items = [BYKEY[k] for k in keys if k != SPLIT]
            split = keys[0] == SPLIT
            fam = ("wide" if any(it in WIDE for it in items) else
                   "split" if split else
                   "ext" if any(it.ext for it in items) else "old")
            ctx.count("family.%s" % fam)
            ctx.count("family.%s.status.%s" % (fam, st))
            ctx.count("status." + st)
            if st in ("rejected_inline", "emit_refused", "inline_incomplete", "emit_failed", "import_failed"):
                for c in classes:
                    ctx.count("status.%s.%s" % (st, c))
            else:
                nprobes = 0
                for c in classes:
                    if c.startswith("probes="):
                        nprobes = int(c[7:])
                        ctx.count("probes_compared", nprobes)
                        ctx.count("family.%s.probes_compared" % fam, nprobes)
                    else:
                        ctx.count(c)
                cl = set()
                for it in items:
                    cl.update(it.cls)
                for c in cl:
                    ctx.count("class." + c)
                ncalls = len(plan_calls(items, split))
                ctx.count("calls_per_case.%s" % (ncalls if ncalls < 4 else "4+"))
                if nprobes and (len(items) > 1 or cl - {"typedef", "constant"}):  # items: the completed sequence
                    nontrivial += 1
                if fam != "wide":
                    ctx.sample({"items": list(keys), "cdef": case_text(keys)})
            for sig, info in out:
                ctx.violation(sig, {"items": list(keys), "cdef": case_text(keys), "info": info})
    cov = {
        "evaluations": evaluated,
        "distinct_nontrivial": nontrivial,
        "rule": "every ordered selection of 1 or 2 distinct items of the %d-item alphabet of the first round; every one "
                "of the %d items added in the audit round (unnamed '$N' aggregates reached through a field / pointer "
                "typedef / parameter / global, typedef of a function TYPE and more function shapes, more kinds of global "
                "and const-qualified globals, empty / enumerator-less / var-sized aggregates, cdef(override=True), a "
                "second included FFI) alone and paired in both orders with every %s item; %s"
                "the %d declarations emit_python_code() refuses alone and paired with every item in both orders; the same "
                "selections of 1 or 2 %s items given with ONE cdef() CALL PER ITEM instead of merged calls (run only "
                "when that changes the calls); %d 'wide' cdefs with N typedef'd arrays, N enums, N structs, a struct of N "
                "fields and min(N,%d) functions and globals for N in %s%s; an item that uses a name "
                "declared by another item is preceded by that item when the selection does not already contain it "
                "earlier (identical completed sequences are run once); consecutive items with the "
                "same cdef options form one cdef() call (except in the split cases); in every case dir() of both libs "
                "is taken and every listed name not probed otherwise must be an attribute of both; a case is "
                "non-trivial when the cdef was accepted in-line, the "
                "module was emitted and imported, at least one probe was compared, and it has two or more items or "
                "declares something other than a plain typedef/constant (cases are distinct sequences)" % (
                    len(ITEMS) - next_, next_, "core" if ctx.quick else "other",
                    "" if ctx.quick else "every ordered selection of 3 distinct items of the %d-item core; " % ncore,
                    len(REFUSED), "core" if ctx.quick else "alphabet", nwide, WIDE_SYMS, list(WIDE_QUICK),
                    "" if ctx.quick else " and one of %d typedef'd arrays + a struct of as many fields" % WIDE_THOROUGH[0]),
        "exhaustive": True,
        "bound": {"max_items": 2 if ctx.quick else 3, "alphabet": len(ITEMS), "core": ncore, "audit_round_items": next_,
                  "wide": list(WIDE_QUICK) + ([] if ctx.quick else list(WIDE_THOROUGH))},
    }
    return ctx.finish(cov, [
        "the in-line FFI is the reference; nothing is compared where it raises itself",
        "one fixed test library (harness/c11_testlib.c) compiled by gcc; symbol addresses cross-checked with ctypes",
        "x86-64 Linux; FILE is glibc's"])


def replay(detail):
    global _TESTLIB
    _TESTLIB = build_testlib()
    if "block" in detail:
        # a worker died in this block of cases: run every case in a forked child and report the ones that die
        died = 0
        for keys in detail["block"]:
            sys.stdout.flush()
            pid = os.fork()
            if pid == 0:
                try:
                    run_case(tuple(keys))
                finally:
                    os._exit(0)
            _, st = os.waitpid(pid, 0)
            if st != 0:
                died += 1
                print("CRASH (wait status %d) in case %r" % (st, list(keys)))
                print(case_text(tuple(keys))[:3000])
        if not died:
            print("no case of the block kills the process now")
        return 1 if died else 0
    keys = tuple(detail["items"])
    print(case_text(keys))
    st, classes, out = run_case(keys)
    print("status:", st, classes)
    for sig, info in out:
        print("MISMATCH", sig, info)
    want = detail.get("info", {}).get("what")
    hit = [1 for sig, info in out if want is None or info["what"] == want]
    if not hit:
        print("no such mismatch now")
    return 1 if hit else 0
