"""Build the _cffi_backend extension from /repo's *working tree* and provide
the environment in which check processes run.

Nothing here trusts /repo/src/_cffi_backend*.so (it is stale with respect to
the working tree).  Builds are cached under /verif/.cache/<hash>/ keyed by the
content of every C source/header that goes into the extension plus the flag
set, so an edit in /repo always causes a rebuild.
"""
import hashlib
import os
import shutil
import subprocess
import sys
import sysconfig
import time

REPO = os.environ.get("VERIF_REPO", "/repo")
VERIF = os.path.dirname(os.path.dirname(os.path.abspath(__file__)))
CACHE = os.path.join(VERIF, ".cache")
PY = "/venv/bin/python"
HARNESS = os.path.join(VERIF, "harness")

EXT_SUFFIX = sysconfig.get_config_var("EXT_SUFFIX") or ".cpython-312-x86_64-linux-gnu.so"
INCLUDEPY = sysconfig.get_config_var("INCLUDEPY")

BASE_FLAGS = ["-fno-strict-overflow", "-DNDEBUG", "-O3", "-fPIC", "-pthread", "-w",
              "-DFFI_BUILDING=1", "-DUSE__THREAD", "-DHAVE_SYNC_SYNCHRONIZE"]

VARIANTS = {
    "plain": [],
    "shim": ["-include", os.path.join(HARNESS, "sched_shim.h")],
    "asan": ["-fsanitize=address,undefined", "-fno-sanitize-recover=undefined",
             "-O1", "-g", "-fno-omit-frame-pointer"],
}


def _source_files():
    out = []
    for d in ("src/c", "src/cffi"):
        full = os.path.join(REPO, d)
        for fn in sorted(os.listdir(full)):
            if fn.endswith((".c", ".h")):
                out.append(os.path.join(full, fn))
    return out


def source_hash(extra=()):
    h = hashlib.sha256()
    for fn in _source_files():
        h.update(fn.encode())
        with open(fn, "rb") as f:
            h.update(f.read())
    for e in extra:
        h.update(repr(e).encode())
    return h.hexdigest()[:20]


def _prune(keep=40, min_age=3600):
    """Keep the `keep` most recently used builds; never remove one used in the last hour
    (another check may be running from it)."""
    try:
        ents = [os.path.join(CACHE, d) for d in os.listdir(CACHE) if d.startswith("be-")]
    except OSError:
        return
    ents.sort(key=lambda p: os.path.getmtime(p))
    now = time.time()
    for p in ents[:-keep]:
        try:
            if now - os.path.getmtime(p) > min_age:
                shutil.rmtree(p, ignore_errors=True)
        except OSError:
            pass


def backend(variant="plain"):
    """Return the directory holding a fresh _cffi_backend for `variant`."""
    flags = BASE_FLAGS + VARIANTS[variant]
    extra = [variant, flags]
    if variant == "shim":
        with open(os.path.join(HARNESS, "sched_shim.h"), "rb") as f:
            extra.append(f.read())
    key = source_hash(extra)
    d = os.path.join(CACHE, "be-%s-%s" % (variant, key))
    so = os.path.join(d, "_cffi_backend" + EXT_SUFFIX)
    if os.path.exists(so):
        os.utime(d, None)
        return d
    os.makedirs(d + ".tmp%d" % os.getpid(), exist_ok=True)
    tmpd = d + ".tmp%d" % os.getpid()
    tmpso = os.path.join(tmpd, "_cffi_backend" + EXT_SUFFIX)
    cmd = ["gcc", "-shared"] + flags + [
        "-I" + INCLUDEPY, "-I/usr/include/ffi",
        "-I" + os.path.join(REPO, "src/c"),
        os.path.join(REPO, "src/c/_cffi_backend.c"), "-o", tmpso, "-lffi"]
    t0 = time.time()
    p = subprocess.run(cmd, stdout=subprocess.PIPE, stderr=subprocess.STDOUT, text=True)
    if p.returncode != 0:
        shutil.rmtree(tmpd, ignore_errors=True)
        sys.stderr.write(p.stdout)
        raise InfraError("backend build (%s) failed" % variant)
    try:
        os.rename(tmpd, d)
    except OSError:
        shutil.rmtree(tmpd, ignore_errors=True)   # somebody else won the race
    sys.stderr.write("[build] backend %s built in %.1fs -> %s\n" % (variant, time.time() - t0, d))
    _prune()
    return d


class InfraError(Exception):
    """A failure of the verification harness itself (exit status 2)."""


def child_env(variant="plain", hashseed="0", extra=None):
    d = backend(variant)
    env = dict(os.environ)
    env["PYTHONPATH"] = os.pathsep.join([d, os.path.join(REPO, "src"), VERIF])
    env["PYTHONHASHSEED"] = str(hashseed)
    env["PYTHONDONTWRITEBYTECODE"] = "1"
    env["VERIF_BACKEND_DIR"] = d
    env["VERIF_VARIANT"] = variant
    env.pop("PYTHONSTARTUP", None)
    if variant == "asan":
        asan = subprocess.run(["gcc", "-print-file-name=libasan.so"], stdout=subprocess.PIPE,
                              text=True).stdout.strip()
        env["LD_PRELOAD"] = asan
        env["ASAN_OPTIONS"] = "detect_leaks=0:abort_on_error=1:allocator_may_return_null=1"
        env["UBSAN_OPTIONS"] = "halt_on_error=1:abort_on_error=1:print_stacktrace=1"
    if extra:
        env.update(extra)
    return env


def assert_fresh():
    """Called inside a check process: the imported backend must be the fresh build
    and the imported cffi package must be the working tree."""
    import _cffi_backend
    import cffi
    bd = os.environ.get("VERIF_BACKEND_DIR")
    if not bd or os.path.dirname(os.path.abspath(_cffi_backend.__file__)) != bd:
        raise InfraError("stale backend imported: %s (wanted %s)" % (_cffi_backend.__file__, bd))
    want = os.path.join(REPO, "src", "cffi")
    if os.path.dirname(os.path.abspath(cffi.__file__)) != want:
        raise InfraError("cffi imported from %s, wanted %s" % (cffi.__file__, want))


_scratch = None


def scratch():
    """Per-process scratch directory outside /repo and /verif, removed at exit."""
    global _scratch
    if _scratch is None or _scratch[0] != os.getpid():
        import atexit
        import tempfile
        shared = os.environ.get("VERIF_SHARED_SCRATCH")
        if shared and os.path.isdir(shared):
            base = shared       # created (and removed) by bin/check
        else:
            base = os.environ.get("VERIF_SCRATCH_BASE") or os.environ.get("TMPDIR") or "/tmp"
        d = tempfile.mkdtemp(prefix="verif-%d-" % os.getpid(), dir=base)
        _scratch = (os.getpid(), d)
        pid = os.getpid()

        def _rm():
            if os.getpid() == pid:
                shutil.rmtree(d, ignore_errors=True)
        atexit.register(_rm)
    return _scratch[1]


def scratch_shared():
    """Scratch directory of the check driver, shared with its forked workers."""
    d = os.environ.get("VERIF_SHARED_SCRATCH")
    if d and os.path.isdir(d):
        return d
    d = scratch()
    os.environ["VERIF_SHARED_SCRATCH"] = d
    return d


def cleanup_scratch():
    """Remove this process's scratch directory now (main.py ends with os._exit)."""
    global _scratch
    if _scratch is not None and _scratch[0] == os.getpid():
        shutil.rmtree(_scratch[1], ignore_errors=True)
        _scratch = None


def cc(src_text, out, flags=(), shared=True, lang="c"):
    """Compile generated reference C with gcc.  Failure is an infrastructure error."""
    srcfn = out + "." + lang
    with open(srcfn, "w") as f:
        f.write(src_text)
    cmd = ["gcc", "-w", "-O0"] + (["-shared", "-fPIC"] if shared else []) + list(flags) + [srcfn, "-o", out]
    p = subprocess.run(cmd, stdout=subprocess.PIPE, stderr=subprocess.STDOUT, text=True)
    if p.returncode != 0:
        raise InfraError("gcc failed on reference source %s:\n%s" % (srcfn, p.stdout[-3000:]))
    return out
