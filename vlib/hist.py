"""E2 -- explicit-state search over operation histories of real objects.

A *system* couples the implementation under test with a boring reference model
and is stepped in lock-step.  Live C objects cannot be copied, so a state is
identified with a history that reaches it and is rebuilt by replaying that
history on fresh objects.

A property module supplies a class with:

    class Sys:
        def __init__(self, cfg): ...          # fresh implementation objects + fresh model
        def enabled(self): -> list of ops     # small, canonical order, simplest first; ops are
                                              #   picklable tuples; may depend on the *model* only
        def apply(self, op): -> None | dict   # run op on impl and model, compare what the
                                              #   property observes; dict = violation info
        def key(self): -> hashable            # model state + observable implementation state
        def close(self): -> None | dict       # end-of-history checks (optional)

`explore` enumerates every history of length <= depth.  Up to length d0 no two
histories are merged (this is what the claim rests on); beyond d0 a history
whose key() was already seen at the same or a smaller depth is not extended.
"""
import collections
import hashlib
import mmap as _mmap
import os

from . import build as _build
from . import pool
from .build import InfraError

_journal = None     # open file: the history about to be executed (crash attribution)


def _journal_path(item):
    return os.path.join(_build.scratch_shared(), "journal-" + hashlib.sha1(repr(item).encode()).hexdigest()[:16])


_JSIZE = 8192


def _note(nh):
    if _journal is not None:
        if not isinstance(_journal, _mmap.mmap):   # file-like journal installed by a property module
            _journal.seek(0)
            _journal.write(repr(nh) + "\n")
            _journal.truncate()
            _journal.flush()
            return
        b = (repr(nh) + "\n").encode("utf-8", "replace")[:_JSIZE - 1]
        _journal[:len(b) + 1] = b + b"\0"       # a shared mapping: survives the death of the process


class Stats(object):
    def __init__(self):
        self.states = 0            # distinct states visited (histories up to d0, distinct keys beyond)
        self.transitions = 0       # op applications whose result was checked (excluding replays)
        self.replayed = 0          # op applications spent rebuilding states
        self.histories_closed = 0
        self.merged = 0
        self.max_depth = 0
        self.violations = []       # (history, info)
        self.samples = []
        self.by_depth = collections.Counter()
        self.op_hist = collections.Counter()
        self.frontier = []         # unexplored histories of length == depth (for splitting the work)

    def merge(self, o):
        self.states += o.states
        self.transitions += o.transitions
        self.replayed += o.replayed
        self.histories_closed += o.histories_closed
        self.merged += o.merged
        self.max_depth = max(self.max_depth, o.max_depth)
        self.violations.extend(o.violations)
        if len(self.samples) < 8:
            self.samples.extend(o.samples[:2])
        self.by_depth.update(o.by_depth)
        self.op_hist.update(o.op_hist)


def build(Sys, cfg, hist):
    """Replay `hist` on a fresh system.  A violation during a replay was already
    reported when that prefix was first explored, so it is ignored here -- but a
    *divergence* (op no longer enabled) is a hard error."""
    s = Sys(cfg)
    for op in hist:
        if op not in s.enabled():
            raise InfraError("replay diverged: %r not enabled after %r" % (op, hist))
        s.apply(op)
    return s


def explore(Sys, cfg, depth, d0, prefix=(), close_every=True, max_violations=50, want_frontier=False):
    st = Stats()
    seen = {}
    frontier = collections.deque([tuple(prefix)])
    # the prefix state itself is counted by whoever produced the prefix
    while frontier:
        h = frontier.popleft()
        s = build(Sys, cfg, h)
        st.replayed += len(h)
        ops = list(s.enabled())
        first = True
        for op in ops:
            if not first:
                s = build(Sys, cfg, h)
                st.replayed += len(h)
            first = False
            _note(h + (op,))
            info = s.apply(op)
            st.transitions += 1
            st.op_hist[op[0] if isinstance(op, tuple) else op] += 1
            nh = h + (op,)
            st.max_depth = max(st.max_depth, len(nh))
            if info is not None:
                st.violations.append((nh, info))
                if len(st.violations) >= max_violations:
                    return st
                continue                      # do not extend a history that already failed
            k = None
            if len(nh) > d0:
                k = s.key()
                if k in seen and seen[k] <= len(nh):
                    st.merged += 1
                    continue
                seen[k] = len(nh)
            st.states += 1
            st.by_depth[len(nh)] += 1
            if len(st.samples) < 3 and len(nh) == depth:
                st.samples.append([repr(o) for o in nh])
            if len(nh) == depth and want_frontier:
                st.frontier.append(nh)
            if len(nh) < depth:
                frontier.append(nh)
                if close_every and hasattr(s, "close"):
                    info = s.close()
                    st.histories_closed += 1
                    if info is not None:
                        st.violations.append((nh + (("<close>",),), info))
            else:
                if hasattr(s, "close"):
                    info = s.close()
                    st.histories_closed += 1
                    if info is not None:
                        st.violations.append((nh + (("<close>",),), info))
    return st


_JOB = {}


def prefixes(Sys, cfg, n):
    """All histories of length exactly n (no merging, no checking)."""
    level = [()]
    for d in range(n):
        nxt = []
        for h in level:
            s = build(Sys, cfg, h)
            for op in s.enabled():
                nxt.append(h + (op,))
        level = nxt
    return level


def _work(item):
    global _journal
    import mmap
    Sys, d0, close_every = _JOB["args"]
    cfg, prefix, depth, want_frontier = item
    path = _journal_path(item)
    with open(path, "wb") as f:
        f.write(b"\0" * _JSIZE)
    f = open(path, "r+b")
    _journal = mmap.mmap(f.fileno(), _JSIZE)
    try:
        return explore(Sys, cfg, depth, min(d0, depth) if want_frontier else d0, prefix, close_every,
                       want_frontier=want_frontier)
    finally:
        _journal.close()
        f.close()
        _journal = None


def _read_journal(item):
    try:
        with open(_journal_path(item), "rb") as f:
            return f.read().split(b"\0", 1)[0].decode("utf-8", "replace").strip()
    except OSError:
        return None


def run_parallel(Sys, cfgs, depth, d0, split=1, close_every=True, contain_crashes=True):
    """Explore, for every cfg, all histories up to `depth`.  Stage 1 explores the histories of
    length <= split (unmerged) and returns the frontier; stage 2 explores the subtree below every
    frontier history.  Both stages run in pool workers, so that a crash of the implementation is
    attributed to the journalled history instead of killing the driver.  Returns (Stats, crashes)
    with crashes = [(item, Crash, last journalled history)]."""
    _JOB["args"] = (Sys, d0, close_every)
    total = Stats()
    crashes = []
    split = min(split, depth)
    items = [(cfg, (), split, True) for cfg in cfgs] if split > 0 else []
    stage2 = [] if split > 0 else [(cfg, (), depth, False) for cfg in cfgs]
    for item, r in pool.pmap(_work, [[it] for it in items], contain_crashes=contain_crashes, item_timeout=3600):
        if isinstance(r, pool.WorkerError):
            raise InfraError(r.tb)
        if isinstance(r, pool.Crash):
            crashes.append((item, r, _read_journal(item)))
            continue
        total.merge(r)
        if depth > split:
            for h in r.frontier:
                stage2.append((item[0], h, depth, False))
    for item, r in pool.pmap(_work, [[it] for it in stage2], contain_crashes=contain_crashes, item_timeout=3600):
        if isinstance(r, pool.WorkerError):
            raise InfraError(r.tb)
        if isinstance(r, pool.Crash):
            crashes.append((item, r, _read_journal(item)))
            continue
        total.merge(r)
    return total, crashes
