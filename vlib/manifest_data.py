"""Texts for MANIFEST.json (bin/gen_manifest)."""

NOTES = ("All checks are bounded exhaustive explorations (model checking family): a finite alphabet, a bound and an "
         "oracle per property; every element of the space is executed against the working tree of /repo (backend "
         "rebuilt from source on every run, keyed by content hash).  Randomness (VERIF_SEED) only selects which "
         "explored cases are printed as samples.  Exit 0 = held on everything explored, 1 = VIOLATION, 2 = harness "
         "failure.  Known findings: /verif/known_findings.json.")

ENGINES = [
    {"name": "E1-enum", "path": "vlib/pool.py + vlib/cref.py",
     "serves_properties": ["C01", "C02", "C03", "C04", "C05", "C06", "C07", "C08", "C09", "C10", "C11", "C12", "C13",
                           "C14", "C15", "C17", "C18", "C20", "C24", "C25", "C30", "C31", "C32", "C33", "C34", "C35"],
     "kind_free_text": "bounded exhaustive enumeration of inputs with a differential oracle (gcc via generated C and "
                       "ctypes, or a second independent implementation inside cffi)"},
    {"name": "E2-hist", "path": "vlib/hist.py",
     "serves_properties": ["C16", "C19", "C21", "C27", "C29", "C36", "C37"],
     "kind_free_text": "explicit-state breadth-first search over operation histories of the real objects, stepped in "
                       "lock-step with a reference model"},
    {"name": "E3-sched", "path": "vlib/sched.py",
     "serves_properties": ["C22", "C26"],
     "kind_free_text": "stateless schedule exploration (iterative preemption bounding) of real Python threads under a "
                       "baton scheduler"},
    {"name": "E4-sched-C", "path": "harness/embed_harness.c",
     "serves_properties": ["C28"],
     "kind_free_text": "schedule exploration of the unchanged _embedding.h text compiled against a stub CPython"},
    {"name": "E5-crash", "path": "vlib/props/c23.py",
     "serves_properties": ["C23"],
     "kind_free_text": "crash-point / torn-write enumeration over the write path with injected I/O"},
]

NOT_APPLICABLE = {}

GCC = "gcc 12 on this machine (x86-64 SysV) is the authority; ctypes is the trusted channel to it"

CHECKS = {
    "C01": dict(engine="E1-enum", level="exploration",
                technique="bounded exhaustive enumeration of aggregate declarations (all field sequences up to a depth over a field-kind alphabet) with gcc as layout oracle",
                text="Every struct/union built from all field sequences up to depth 3 (thorough 4) over a 25-kind alphabet, all ordered pairs over a ~150-kind alphabet covering every integer type and bitfield width class, x packing x flexible tails is declared in cffi and compiled by gcc; sizeof/alignof/offsetof and the storage bits of every bitfield are compared.  The layout loop only branches on comparisons the alphabet straddles, so this decides the property up to the stated depth.",
                note=GCC + "; MSVC/ARM bitfield branches are compiled out and not judged"),
    "C02": dict(engine="E1-enum", level="exploration",
                technique="exhaustive enumeration of every (type, bit offset, width) placement x boundary value set, compared with gcc-compiled accessors",
                text="All 9.7k placements of a bitfield inside its storage unit for the 10 integer types (+ _Bool, + bitfields after plain bytes) x ~70 boundary values x 2 backgrounds: acceptance iff in range, read-back, byte image equal to the image the compiled C setter produces, and cross-reads in both directions.",
                note=GCC),
}
