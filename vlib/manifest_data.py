"""Texts for MANIFEST.json (bin/gen_manifest)."""

NOTES = ("All checks are bounded exhaustive explorations (model checking family): a finite alphabet, a bound and an "
         "oracle per property; every element of the space is executed against the working tree of /repo (backend "
         "rebuilt from source on every run, keyed by content hash).  Randomness (VERIF_SEED) only selects which "
         "explored cases are printed as samples.  Exit 0 = held on everything explored, 1 = VIOLATION, 2 = harness "
         "failure.  Known findings: /verif/known_findings.json.")

ENGINES = [
    {"name": "E1-enum", "path": "vlib/pool.py + vlib/cref.py",
     "serves_properties": ["C01", "C02", "C03", "C04", "C05", "C06", "C07", "C08", "C09", "C10", "C11", "C12", "C13",
                           "C14", "C15", "C17", "C18", "C20", "C24", "C25", "C30", "C31", "C32", "C33", "C34", "C35"],
     "kind_free_text": "bounded exhaustive enumeration of inputs with a differential oracle (gcc via generated C and "
                       "ctypes, or a second independent implementation inside cffi)"},
    {"name": "E2-hist", "path": "vlib/hist.py",
     "serves_properties": ["C16", "C19", "C21", "C27", "C29", "C36", "C37"],
     "kind_free_text": "explicit-state breadth-first search over operation histories of the real objects, stepped in "
                       "lock-step with a reference model"},
    {"name": "E3-sched", "path": "vlib/sched.py",
     "serves_properties": ["C22", "C26"],
     "kind_free_text": "stateless schedule exploration (iterative preemption bounding) of real Python threads under a "
                       "baton scheduler"},
    {"name": "E4-sched-C", "path": "harness/c28/world.c",
     "serves_properties": ["C28"],
     "kind_free_text": "schedule exploration of the unchanged _embedding.h text compiled against a stub CPython"},
    {"name": "E5-crash", "path": "vlib/props/c23.py",
     "serves_properties": ["C23"],
     "kind_free_text": "crash-point / torn-write enumeration over the write path with injected I/O"},
]

NOT_APPLICABLE = {}

GCC = "gcc 12 on this machine (x86-64 SysV) is the authority; ctypes is the trusted channel to it"

# properties whose check has been reviewed and is registered in MANIFEST.json
CLAIMED = ['C01', 'C02', 'C03', 'C04', 'C05', 'C06', 'C07', 'C08', 'C09', 'C10', 'C11', 'C12', 'C13', 'C14', 'C15', 'C16', 'C17', 'C18', 'C19', 'C20', 'C21', 'C22', 'C23', 'C24', 'C25', 'C26', 'C27', 'C28', 'C29', 'C30', 'C31', 'C32', 'C33', 'C34', 'C35', 'C36', 'C37']
