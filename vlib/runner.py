"""Check context: tiers, violations, known findings, evidence, exit status."""
import collections
import json
import os
import random
import subprocess
import sys
import time

from . import build
from .build import InfraError, VERIF

# evidence/ describes /repo itself: runs against another checkout (VERIF_REPO, used for the seeded changes only)
# write theirs under .cache/ instead
EVID_DIR = (os.path.join(VERIF, "evidence") if os.environ.get("VERIF_REPO") is None
            else os.path.join(VERIF, ".cache", "evidence-other-checkout"))
REPLAY_DIR = os.path.join(VERIF, "replays")
KNOWN_FILE = os.path.join(VERIF, "known_findings.json")
MAX_REPLAYS = 12


def _jsonable(o):
    if isinstance(o, (str, int, float, bool)) or o is None:
        return o
    if isinstance(o, bytes):
        return {"__bytes__": o.hex()}
    if isinstance(o, dict):
        return {str(k): _jsonable(v) for k, v in o.items()}
    if isinstance(o, (list, tuple, set, frozenset)):
        return [_jsonable(v) for v in o]
    return repr(o)


def unjson(o):
    if isinstance(o, dict):
        if set(o) == {"__bytes__"}:
            return bytes.fromhex(o["__bytes__"])
        return {k: unjson(v) for k, v in o.items()}
    if isinstance(o, list):
        return [unjson(v) for v in o]
    return o


class Ctx(object):
    def __init__(self, pid, tier, seed, level):
        self.pid = pid
        self.tier = tier
        self.quick = tier == "quick"
        self.seed = seed
        self.level = level
        self.rng = random.Random(seed)        # used ONLY to pick samples for the evidence
        self.t0 = time.time()
        self.counts = collections.Counter()
        self.samples = []
        self._nsample_seen = 0
        self.violations = []                  # (sig, detail)
        self.nviol = 0
        self.known_hits = collections.Counter()
        self.replays_written = 0
        self.assumptions = []
        self.known = [k for k in _load_known() if k.get("property") == pid]
        self._viol_sigs = set()
        self.out_lines = []
        self.sig_counts = collections.Counter()
        # replay files of an earlier run of this tier are stale now
        d = os.path.join(REPLAY_DIR, pid)
        if os.path.isdir(d):
            for fn in os.listdir(d):
                if fn.startswith(tier + "-"):
                    try:
                        os.unlink(os.path.join(d, fn))
                    except OSError:
                        pass

    # ---- bookkeeping ------------------------------------------------------
    def count(self, key, n=1):
        self.counts[key] += n

    def sample(self, obj, k=6):
        """Reservoir of k samples among everything offered (for the evidence only)."""
        self._nsample_seen += 1
        if len(self.samples) < k:
            self.samples.append(_jsonable(obj))
        else:
            j = self.rng.randrange(self._nsample_seen)
            if j < k:
                self.samples[j] = _jsonable(obj)

    def log(self, msg):
        sys.stderr.write("[%s %6.1fs] %s\n" % (self.pid, time.time() - self.t0, msg))
        sys.stderr.flush()

    # ---- violations -------------------------------------------------------
    def violation(self, sig, detail):
        """sig: small dict classifying the failure (matched against known findings and
        used to de-duplicate replay files); detail: everything needed to replay it."""
        sig = _jsonable(sig)
        for k in self.known:
            if k.get("status", "known") != "known":
                continue
            if _match(k.get("match", {}), sig):
                self.known_hits[k["id"]] += 1
                return False
        self.nviol += 1
        key = json.dumps(sig, sort_keys=True)
        self.sig_counts[key] += 1
        if key in self._viol_sigs and self.replays_written >= 3:
            return True
        self._viol_sigs.add(key)
        if self.replays_written < MAX_REPLAYS:
            d = os.path.join(REPLAY_DIR, self.pid)
            os.makedirs(d, exist_ok=True)
            self.replays_written += 1
            path = os.path.join(d, "%s-%03d.json" % (self.tier, self.replays_written))
            with open(path, "w") as f:
                json.dump({"property": self.pid, "sig": sig, "detail": _jsonable(detail)}, f, indent=1)
            line = "VIOLATION property=%s replay=%s" % (self.pid, path)
            print(line)
            print("  sig=%s" % key)
            sys.stdout.flush()
        return True

    # ---- finish -----------------------------------------------------------
    def finish(self, coverage, assumptions=()):
        wall = time.time() - self.t0
        cov = dict(coverage)
        cov.setdefault("samples", self.samples[:])
        if self.counts:
            cov.setdefault("class_histogram", dict(sorted(self.counts.items())))
        if self.sig_counts:
            cov["violation_signatures"] = dict(self.sig_counts)
            for k, n in sorted(self.sig_counts.items()):
                print("  violations %6d x %s" % (n, k))
        if self.known_hits:
            cov["known_finding_hits"] = dict(self.known_hits)
        ev = {
            "property_id": self.pid,
            "tier": self.tier,
            "seed": self.seed,
            "level": self.level,
            "coverage": _jsonable(cov),
            "assumptions": list(assumptions) + self.assumptions,
            "wall_s": round(wall, 2),
            "violations": self.nviol,
        }
        os.makedirs(EVID_DIR, exist_ok=True)
        path = os.path.join(EVID_DIR, "%s.json" % self.pid)
        tmp = path + ".tmp%d" % os.getpid()
        with open(tmp, "w") as f:
            json.dump(ev, f, indent=1, sort_keys=True)
            f.write("\n")
        os.replace(tmp, path)
        _validate(path)
        if os.environ.get("VERIF_REPO") is None:
            # per-tier copy, so that a quick run does not erase the record of the last thorough run
            tdir = os.path.join(EVID_DIR, "by-tier")
            os.makedirs(tdir, exist_ok=True)
            tpath = os.path.join(tdir, "%s.%s.json" % (self.pid, self.tier))
            with open(tpath + ".tmp%d" % os.getpid(), "w") as f:
                json.dump(ev, f, indent=1, sort_keys=True)
                f.write("\n")
            os.replace(tpath + ".tmp%d" % os.getpid(), tpath)
        for k in self.known:
            if k.get("status", "known") != "known":
                continue
            n = self.known_hits.get(k["id"], 0)
            if n:
                print("KNOWN-FINDING: property=%s %s [%s; %d case(s) this run]" % (
                    self.pid, k["what"], k["id"], n))
        keys = ("evaluations", "distinct_nontrivial", "states", "transitions",
                "traces_validated_against_impl", "schedules", "exhaustive")
        print("%s tier=%s %s violations=%d wall=%.1fs" % (
            self.pid, self.tier, " ".join("%s=%s" % (k, cov[k]) for k in keys if k in cov),
            self.nviol, wall))
        sys.stdout.flush()
        return 1 if self.nviol else 0


def _match(m, sig):
    for k, v in m.items():
        if k.endswith("__has_part"):
            if v not in str(sig.get(k[:-10], "")).split("+"):
                return False
            continue
        if k.endswith("__parts_in"):
            if not all(p in v for p in str(sig.get(k[:-10], "")).split("+")):
                return False
            continue
        sv = sig.get(k)
        if isinstance(v, list):
            if sv not in v:
                return False
        elif sv != v:
            return False
    return True


def _load_known():
    try:
        with open(KNOWN_FILE) as f:
            return json.load(f)["findings"]
    except FileNotFoundError:
        return []


def _validate(path):
    vt = "/opt/veriftools/pyvenv/bin/python"
    if not os.path.exists(vt):
        return
    code = ("import json,sys,jsonschema;"
            "jsonschema.validate(json.load(open(sys.argv[1])),json.load(open(sys.argv[2])))")
    schema = "/root/.vp/EVIDENCE.schema.json"
    if not os.path.exists(schema):
        schema = os.path.join(VERIF, "vlib", "EVIDENCE.schema.json")
    p = subprocess.run([vt, "-c", code, path, schema], stdout=subprocess.PIPE, stderr=subprocess.STDOUT, text=True,
                       env={k: v for k, v in os.environ.items() if not k.startswith("PYTHON")
                            and k not in ("LD_PRELOAD",)})
    if p.returncode != 0:
        raise InfraError("evidence file does not validate:\n" + p.stdout[-2000:])
