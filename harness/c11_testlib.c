/* C11: the one fixed test library (built once per run, no other compiler use).
 * Defines every function and global variable that the declaration alphabet of
 * vlib/props/c11.py refers to.  Loaded three ways: in-line ffi.dlopen(), the generated
 * module's ffi.dlopen(), and ctypes (independent authority for symbol addresses). */
#include <stdio.h>
#include <stdarg.h>
#include <string.h>

struct S0 { int a; char b; };
typedef struct { short h; long l; } anon_t;
enum E_small { ES_A, ES_B, ES_C = 10 };
typedef unsigned short td_us;

int f_inc(int x) { return x + 1; }
void f_void(void) { }
int f_var(int n, ...)
{
    va_list ap; int i, s = 0;
    va_start(ap, n);
    for (i = 0; i < n; i++) s += va_arg(ap, int);
    va_end(ap);
    return s;
}
struct S0 f_s0(struct S0 s) { s.a += 1; return s; }
int f_ps0(struct S0 *p) { return p ? p->a : -1; }
int f_cb(int (*cb)(int), int v) { return cb ? cb(v) : v; }
int f_file(FILE *f) { return f != NULL; }
enum E_small f_enum(enum E_small e) { return e; }
td_us f_td(td_us v) { return (td_us)(v + 1); }
char *f_str(const char *s) { return (char *)s; }
anon_t *f_anon(anon_t *p) { return p; }
double f_dbl(double d, float f) { return d + f; }

int g_int = 42;
unsigned char g_uchar = 200;
long long g_ll = -5000000000LL;
double g_double = 2.5;
int g_arr[4] = { 1, 2, 3, 4 };
int g_open[] = { 7, 8, 9 };
char *g_str = "hello";
struct S0 g_s0 = { 11, 'x' };
int (*g_fp)(int) = f_inc;
enum E_small g_enum = ES_C;
FILE *g_file = NULL;
anon_t g_anon = { 3, 4 };
const int g_cint = 77;

/* ---- audit-round additions (gaps 2-5 of .cache/audit/C11.md) ---------------------- */
#include <wchar.h>
#include <complex.h>
union U0 { int i; char c[6]; double d; };
typedef int td_arr5[5];

int f_arrparam(struct S0 a[2]) { return a ? a[0].a + a[1].a : -1; }
static int f_retfp_inner(int x) { return x * 2; }
int (*f_retfp(int k))(int) { return k ? f_retfp_inner : f_inc; }
int f_seven(int a, int b, int c, int d, int e, int f, int g) { return a + b + c + d + e + f + g; }
int f_tdarr(td_arr5 a) { return a ? a[0] : -1; }
float _Complex f_cplx(float _Complex z) { return z; }
_Bool f_bool(_Bool b) { return !b; }
wchar_t f_wc(wchar_t w) { return w + 1; }
long double f_ld(long double x) { return x + 1; }
int f_viafn(int x) { return x - 1; }
void f_un(void *p) { (void)p; }                       /* declared as void f_un(struct { int a; } *) */

_Bool g_b = 1;
float g_f = 1.5f;
long double g_ld = 2.25L;
wchar_t g_w = L'\x3a9';
union U0 g_u = { 0x01020304 };
int g_m[2][3] = { { 1, 2, 3 }, { 4, 5, 6 } };
struct S0 g_as[2] = { { 1, 'a' }, { 2, 'b' } };
struct S0 *g_ps = &g_s0;
const double g_cd = 6.5;
const char *const g_ccs = "const";
const struct S0 g_cs0 = { 5, 'c' };
struct { int a; int b; } g_un = { 21, 22 };         /* declared with an unnamed struct type */

/* ---- 300 functions and 300 pointer-sized globals for the "wide" cdefs (gap 1): wf_000 .. wf_299, wg_000 .. wg_299 */
#define W1(n) void *wg_##n = (void *)(long)(1##n - 1000); int wf_##n(void *p) { (void)p; return 1##n - 1000; }
#define W10(p) W1(p##0) W1(p##1) W1(p##2) W1(p##3) W1(p##4) W1(p##5) W1(p##6) W1(p##7) W1(p##8) W1(p##9)
#define W100(p) W10(p##0) W10(p##1) W10(p##2) W10(p##3) W10(p##4) W10(p##5) W10(p##6) W10(p##7) W10(p##8) W10(p##9)
W100(0) W100(1) W100(2)
