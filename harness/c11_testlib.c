/* C11: the one fixed test library (built once per run, no other compiler use).
 * Defines every function and global variable that the declaration alphabet of
 * vlib/props/c11.py refers to.  Loaded three ways: in-line ffi.dlopen(), the generated
 * module's ffi.dlopen(), and ctypes (independent authority for symbol addresses). */
#include <stdio.h>
#include <stdarg.h>
#include <string.h>

struct S0 { int a; char b; };
typedef struct { short h; long l; } anon_t;
enum E_small { ES_A, ES_B, ES_C = 10 };
typedef unsigned short td_us;

int f_inc(int x) { return x + 1; }
void f_void(void) { }
int f_var(int n, ...)
{
    va_list ap; int i, s = 0;
    va_start(ap, n);
    for (i = 0; i < n; i++) s += va_arg(ap, int);
    va_end(ap);
    return s;
}
struct S0 f_s0(struct S0 s) { s.a += 1; return s; }
int f_ps0(struct S0 *p) { return p ? p->a : -1; }
int f_cb(int (*cb)(int), int v) { return cb ? cb(v) : v; }
int f_file(FILE *f) { return f != NULL; }
enum E_small f_enum(enum E_small e) { return e; }
td_us f_td(td_us v) { return (td_us)(v + 1); }
char *f_str(const char *s) { return (char *)s; }
anon_t *f_anon(anon_t *p) { return p; }
double f_dbl(double d, float f) { return d + f; }

int g_int = 42;
unsigned char g_uchar = 200;
long long g_ll = -5000000000LL;
double g_double = 2.5;
int g_arr[4] = { 1, 2, 3, 4 };
int g_open[] = { 7, 8, 9 };
char *g_str = "hello";
struct S0 g_s0 = { 11, 'x' };
int (*g_fp)(int) = f_inc;
enum E_small g_enum = ES_C;
FILE *g_file = NULL;
anon_t g_anon = { 3, 4 };
const int g_cint = 77;
