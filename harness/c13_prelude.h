/* C13 -- common part of every generated test library.
 *
 * Every test function computes a 64-bit digest `h` of what it received (for
 * pointers: of what it could read through them, and it writes through them),
 * derives its result from `h`, records the errno it saw on entry and sets a new
 * errno derived from `h`.  The same machine code is reached by all four call
 * paths, so any difference between the paths comes from cffi's conversions.
 */
#include <errno.h>
#include <stdarg.h>
#include <stddef.h>
#include <stdint.h>
#include <string.h>
#include <sys/types.h>
#include <uchar.h>
#include <wchar.h>

typedef unsigned short u16_t;
typedef long long i64_t;
enum e1 { E1A, E1B = 5, E1C = 4000000000 };
enum e2 { E2A = -1, E2B = 3 };
struct s1 { unsigned char a; };
struct s2 { float x; float y; };
struct s3 { long a; double b; };
struct s4 { int a; char c[5]; double d; long long e; short s; struct s1 n; };

typedef unsigned long long H;

int c13_errno_in = -1;      /* errno seen by the last test function that ran */
int c13_ncalls = 0;         /* how many test functions ran */
char c13_static[256];       /* pointer results of non-pointer functions point here */

static H c13_dbits(double d) { H h = 0; memcpy(&h, &d, sizeof d); return h; }
static H c13_fbits(float f) { unsigned u = 0; memcpy(&u, &f, sizeof f); return u; }

static void c13_done(H h)
{
    int e = errno;
    c13_errno_in = e;
    c13_ncalls++;
    errno = (int)(((h ^ (h >> 17) ^ (h >> 41)) + 3u * (unsigned)e) & 0x3fff) + 1;
}

/* ---- digests of arguments ------------------------------------------------ */

/* char *: reads up to the NUL (at most 24 bytes); writes only if the text
   starts with 'W' (never the case for Python bytes objects passed directly) */
static H c13_in_pc(char *p)
{
    H h = 0x9e37; int i;
    if (!p) return 0xdead;
    for (i = 0; i < 24 && p[i]; i++) h = h * 131 + (unsigned char)p[i];
    if (p[0] == 'W' && p[1]) p[1] ^= 0x20;
    return h + (H)i;
}

/* int *: p[0] >= 100 announces p[0]-100 (at most 8) further readable items */
static H c13_in_pi(int *p)
{
    H h = 0x51; int i, n;
    if (!p) return 0xdeae;
    n = p[0] - 100;
    if (n < 0 || n > 8) n = 0;
    h = h * 131 + (unsigned)p[0];
    for (i = 1; i <= n; i++) { h = h * 131 + (unsigned)p[i]; p[i] += i; }
    p[0] = (int)(h & 0x3fff) | 0x4000;
    return h;
}

static H c13_in_ps(struct s3 *p)
{
    H h;
    if (!p) return 0xdeaf;
    h = (H)p->a * 31 + c13_dbits(p->b);
    p->a += 1;
    p->b = p->b * 2 + 1;
    return h;
}

/* unsigned char *: one item, or (if it starts with 'W') a NUL-terminated text that is modified */
static H c13_in_puc(unsigned char *p)
{
    H h = 0x77; int i;
    if (!p) return 0xdeb1;
    if (p[0] != 'W') return h * 131 + p[0];
    for (i = 0; i < 24 && p[i]; i++) h = h * 131 + p[i];
    if (p[1]) p[1] ^= 0x20;
    return h + (H)i;
}

static H c13_in_pb(_Bool *p) { return p ? 0x200 + *(unsigned char *)p : 0xdeb2; }
static H c13_in_pv(void *p) { return p ? 0x300 + *(unsigned char *)p : 0xdeb3; }

static H c13_in_pw(wchar_t *p)
{
    H h = 0x99; int i;
    if (!p) return 0xdeb4;
    for (i = 0; i < 24 && p[i]; i++) h = h * 131 + (H)(long long)p[i];
    if (p[0] == L'W' && p[1]) p[1] ^= 0x20;
    return h + (H)i;
}

static H c13_in_s1(struct s1 v) { return 0x100 + v.a; }
static H c13_in_s2(struct s2 v) { return c13_fbits(v.x) * 0x10001ULL + c13_fbits(v.y); }
static H c13_in_s3(struct s3 v) { return (H)v.a * 31 + c13_dbits(v.b); }
static H c13_in_s4(struct s4 v)
{
    H h = (H)(unsigned)v.a; int i;
    for (i = 0; i < 5; i++) h = h * 131 + (unsigned char)v.c[i];
    h = h * 131 + c13_dbits(v.d);
    h = h * 131 + (H)v.e;
    h = h * 131 + (unsigned short)v.s;
    h = h * 131 + v.n.a;
    return h;
}

/* ---- results derived from the digest ------------------------------------- */

static void *c13_out_p(H h) { return (h & 15) == 15 ? (void *)0 : (void *)(c13_static + 8 * (h & 15)); }
static struct s1 c13_out_s1(H h) { struct s1 r; r.a = (unsigned char)h; return r; }
static struct s2 c13_out_s2(H h)
{
    struct s2 r; r.x = (float)(long long)(h & 0xffff) / 8.0f; r.y = -(float)(long long)((h >> 16) & 0xffff); return r;
}
static struct s3 c13_out_s3(H h) { struct s3 r; r.a = (long)h; r.b = (double)(long long)(h >> 3) / 4.0; return r; }
static struct s4 c13_out_s4(H h)
{
    struct s4 r; int i;
    memset(&r, 0, sizeof r);
    r.a = (int)h;
    for (i = 0; i < 5; i++) r.c[i] = (char)(h >> (8 * i));
    r.d = (double)(long long)(h % 100003) / 16.0;
    r.e = (long long)~h;
    r.s = (short)(h >> 7);
    r.n.a = (unsigned char)(h >> 5);
    return r;
}

/* ---- variadic functions ---------------------------------------------------
 * The first argument describes the extra arguments, 4 bits each, lowest first:
 *   1 int   2 unsigned   3 long long   4 double   5 int * (read+write p[0])
 *   6 any pointer (only compared with NULL)   7..10 struct s1..s4 by value
 *   11 unsigned long long   12 wchar_t (same size as int here)
 */
static H c13_vargs(H h, unsigned fmt, va_list ap)
{
    for (; fmt; fmt >>= 4) {
        switch (fmt & 15) {
        case 1: h = h * 131 + (H)(long long)va_arg(ap, int); break;
        case 2: h = h * 131 + (H)va_arg(ap, unsigned); break;
        case 3: h = h * 131 + (H)va_arg(ap, long long); break;
        case 4: h = h * 131 + c13_dbits(va_arg(ap, double)); break;
        case 5: { int *p = va_arg(ap, int *); if (p) { h = h * 131 + (unsigned)p[0]; p[0] += 1; } else h = h * 131 + 0xdeae; break; }
        case 6: { void *p = va_arg(ap, void *); h = h * 131 + (p == (void *)0); break; }
        case 7: h = h * 131 + c13_in_s1(va_arg(ap, struct s1)); break;
        case 8: h = h * 131 + c13_in_s2(va_arg(ap, struct s2)); break;
        case 9: h = h * 131 + c13_in_s3(va_arg(ap, struct s3)); break;
        case 10: h = h * 131 + c13_in_s4(va_arg(ap, struct s4)); break;
        case 11: h = h * 131 + (H)va_arg(ap, unsigned long long); break;
        case 12: h = h * 131 + (H)(long long)va_arg(ap, wchar_t); break;
        default: h = h * 131 + 0xbad; break;
        }
    }
    return h;
}

int c13_v(int fmt, ...)
{
    va_list ap; H h;
    va_start(ap, fmt);
    h = c13_vargs((H)(unsigned)fmt, (unsigned)fmt, ap);
    va_end(ap);
    c13_done(h);
    return (int)(h ^ (h >> 32));
}

double c13_vd(double fmt, ...)
{
    va_list ap; H h;
    va_start(ap, fmt);
    h = c13_vargs(c13_dbits(fmt), (unsigned)fmt, ap);
    va_end(ap);
    c13_done(h);
    return (double)(long long)(h & 0xffffffffffffLL) / 8.0;
}

/* ---- function pointers ------------------------------------------------------ */

int c13_g1(int x) { c13_done((H)(long long)x * 3); return x / 2 + 1; }
long long c13_g2(struct s3 s, double d) { H h = c13_in_s3(s) * 131 + c13_dbits(d); c13_done(h); return (long long)h; }

int c13_fp1(int (*cb)(int), int x)
{
    int r = cb ? cb(x) : -7;
    c13_done((H)(long long)x * 131 + (H)(long long)r);
    return r;
}

long long c13_fp2(long long (*cb)(struct s3, double), int x)
{
    struct s3 s; long long r;
    s.a = x; s.b = x / 4.0;
    r = cb ? cb(s, -1.5) : -7;
    c13_done((H)r);
    return r;
}

int (*c13_retfp(int which))(int)
{
    c13_done((H)(long long)which);
    return (which & 1) ? c13_g1 : (int (*)(int))0;
}
