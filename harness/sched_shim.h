/* Compile-time interposition for the "shim" build of _cffi_backend (no change in
 * /repo): included with `gcc -include` before the backend's own source.
 *
 * PyThread_acquire_lock / PyThread_release_lock become function-like macros that
 * stringify the lock expression.  Only the init_once lock (a local variable
 * named `lock` in ffi_init_once) is routed to the Python-level scheduler stored
 * in sys._cffi_verif_sched; every other lock (the zombie lock of the thread
 * canary) goes straight to the real function.
 */
#ifndef CFFI_VERIF_SCHED_SHIM_H
#define CFFI_VERIF_SCHED_SHIM_H

#include <Python.h>
#include <pythread.h>
#include <string.h>

static void _verif_call_hook(const char *what, void *lock)
{
    /* may be called with or without the GIL */
    PyGILState_STATE st = PyGILState_Ensure();
    PyObject *hook = PySys_GetObject("_cffi_verif_sched");   /* borrowed */
    if (hook != NULL && hook != Py_None) {
        PyObject *exc_type, *exc_val, *exc_tb, *r;
        PyErr_Fetch(&exc_type, &exc_val, &exc_tb);
        r = PyObject_CallFunction(hook, "sn", what, (Py_ssize_t)lock);
        if (r == NULL)
            PyErr_WriteUnraisable(hook);
        Py_XDECREF(r);
        PyErr_Restore(exc_type, exc_val, exc_tb);
    }
    PyGILState_Release(st);
}

static int _verif_acquire(PyThread_type_lock l, int w, const char *site)
{
    if (strcmp(site, "lock") == 0)
        _verif_call_hook("acquire", (void *)l);   /* returns when the scheduler grants it */
    return (PyThread_acquire_lock)(l, w);
}

static void _verif_release(PyThread_type_lock l, const char *site)
{
    (PyThread_release_lock)(l);
    if (strcmp(site, "lock") == 0)
        _verif_call_hook("release", (void *)l);
}

#define PyThread_acquire_lock(l, w)  _verif_acquire((l), (w), #l)
#define PyThread_release_lock(l)     _verif_release((l), #l)

#endif
