/* Stub `pkg-config` for check C35: a real executable that is placed first on PATH.
 * Usage (as cffi.pkgconfig calls it): pkg-config [--print-errors] <flag> <libname>
 * The answer comes from files written by the check:
 *   $C35_STUB_DATA/<sanitized libname><flag>.rc   exit status (decimal; -9 = die by SIGKILL)
 *   $C35_STUB_DATA/<sanitized libname><flag>.out  bytes for stdout
 *   $C35_STUB_DATA/<sanitized libname><flag>.err  bytes for stderr
 * An unknown request prints "stub: unknown request" to stderr and exits 97.
 */
#include <ctype.h>
#include <signal.h>
#include <stdio.h>
#include <stdlib.h>
#include <string.h>
#include <unistd.h>

static int dump(const char *base, const char *ext, int fd)
{
    char path[8192], buf[4096];
    size_t n;
    FILE *f;
    snprintf(path, sizeof path, "%s%s", base, ext);
    f = fopen(path, "rb");
    if (f == NULL)
        return -1;
    while ((n = fread(buf, 1, sizeof buf, f)) > 0) {
        size_t off = 0;
        while (off < n) {
            ssize_t w = write(fd, buf + off, n - off);
            if (w <= 0)
                break;
            off += (size_t)w;
        }
    }
    fclose(f);
    return 0;
}

static int unknown(void)
{
    fputs("stub: unknown request\n", stderr);
    return 97;
}

int main(int argc, char **argv)
{
    int i = 1, rc;
    size_t k, len;
    const char *data = getenv("C35_STUB_DATA");
    char base[8192], path[8192], num[64];
    FILE *f;

    if (i < argc && strcmp(argv[i], "--print-errors") == 0)
        i++;
    if (argc - i != 2 || data == NULL)
        return unknown();
    len = (size_t)snprintf(base, sizeof base, "%s/", data);
    for (k = 0; argv[i + 1][k] != 0 && len + 1 < sizeof base; k++) {
        unsigned char c = (unsigned char)argv[i + 1][k];
        base[len++] = (c < 128 && isalnum(c)) ? (char)c : '_';
    }
    base[len] = 0;
    if (len + strlen(argv[i]) + 8 >= sizeof base)
        return unknown();
    strcat(base, argv[i]);
    snprintf(path, sizeof path, "%s.rc", base);
    f = fopen(path, "r");
    if (f == NULL)
        return unknown();
    if (fgets(num, sizeof num, f) == NULL) {
        fclose(f);
        return unknown();
    }
    fclose(f);
    rc = atoi(num);
    dump(base, ".out", 1);
    dump(base, ".err", 2);
    if (rc < 0)
        kill(getpid(), -rc);
    return rc;
}
