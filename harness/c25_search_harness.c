/* C25, part 1: search_sorted / search_in_{globals,struct_unions,enums,typenames}
 * taken by #include from the tree under test (-DPARSE_C_TYPE_C="\"<repo>/src/c/parse_c_type.c\""),
 * compiled with -fsanitize=address,undefined.
 *
 * usage: harness <names-file> <kmax> <lo> <hi>
 *        harness <names-file> W <lo> <hi>        (large tables, see below)
 *
 * <names-file> holds the identifier universe, one name per line, ALREADY SORTED BY PYTHON
 * (the same list.sort(key=name) that Recompiler.collect_step_tables uses).  Every subset of
 * the universe sorted by that order is a strictly increasing index tuple, so enumerating all
 * increasing tuples of length <= kmax enumerates all subsets of size <= kmax in Python's order.
 * Only tuples whose first index is in [lo, hi) are run (work split between processes); the
 * empty set is run by the process with lo == 0.
 *
 * For every subset S, a table of each of the four real struct types is built, and EVERY name
 * u of the universe is looked up with the real search_in_*() -- the probe is handed over as an
 * exactly-sized heap buffer without NUL terminator, as the tokenizer does (tok->p, tok->size),
 * so that an over-read is an ASan error.  Expected: position of u in S, or -1.
 *
 * Mode W (tables of every size 1..N, which the subsets of size <= kmax do not reach): every
 * CONTIGUOUS window [i, j) of the sorted universe with i in [lo, hi), and every arithmetic
 * subsequence {o, o+k, o+2k, ...} with offset o in [lo, hi) and step k, o < k < N.  The binary
 * search then runs with every table length, with the missing probes falling on each side of
 * every pivot.
 */
#include <stdio.h>
#include <stdint.h>
#include <stddef.h>

#include PARSE_C_TYPE_C

static const char *get_common_type(const char *search, size_t search_len)
{
    (void)search; (void)search_len;
    return NULL;
}

#define MAXN 256
#define MAXK 6           /* bound on kmax of the subset mode */

static char *U[MAXN];          /* NUL-terminated (table side) */
static char *P[MAXN];          /* exact-size, no terminator (probe side) */
static size_t L[MAXN];
static int N;

/* relation of probe u to member m: 0 none, 1 equal, 2 u proper prefix of m,
   3 m proper prefix of u, 4 same first char but neither */
static unsigned char REL[MAXN][MAXN];

static long long n_sets, n_calls, n_found, n_notfound, n_bad;
static long long cls[5];       /* member, probe-is-prefix, member-is-prefix, common-first-char, unrelated */
static long long by_size[MAXN + 1];

struct odd_item { long pad; const char *name; long tail[3]; };   /* 40 bytes, name not first */

static void report_bad(const char *table, const int *idx, int k, int probe, int got, int want)
{
    int j;
    n_bad++;
    if (n_bad > 40)
        return;
    printf("BAD table=%s set=", table);
    for (j = 0; j < k; j++)
        printf("%s%d", j ? "," : "", idx[j]);
    printf(" probe=%d got=%d want=%d\n", probe, got, want);
}

static void run_tables(const int *idx, int k, struct _cffi_global_s *g, struct _cffi_struct_union_s *s,
                       struct _cffi_enum_s *e, struct _cffi_typename_s *t, struct odd_item *o)
{
    struct _cffi_type_context_s ctx;
    int j, u;

    memset(&ctx, 0, sizeof(ctx));
    for (j = 0; j < k; j++) {
        g[j].name = U[idx[j]];
        s[j].name = U[idx[j]];
        e[j].name = U[idx[j]];
        t[j].name = U[idx[j]];
        o[j].name = U[idx[j]];
    }
    ctx.globals = g;        ctx.num_globals = k;
    ctx.struct_unions = s;  ctx.num_struct_unions = k;
    ctx.enums = e;          ctx.num_enums = k;
    ctx.typenames = t;      ctx.num_typenames = k;
    n_sets++;
    by_size[k]++;

    for (u = 0; u < N; u++) {
        int want = -1, got, c = 4;
        for (j = 0; j < k; j++) {
            unsigned char r = REL[u][idx[j]];
            if (r == 1) { want = j; c = 0; break; }
            if (r == 2 && c > 1) c = 1;
            else if (r == 3 && c > 2) c = 2;
            else if (r == 4 && c > 3) c = 3;
        }
        cls[c]++;
        if (want >= 0) n_found++; else n_notfound++;

        got = search_in_globals(&ctx, P[u], L[u]);
        if (got != want) report_bad("globals", idx, k, u, got, want);
        got = search_in_struct_unions(&ctx, P[u], L[u]);
        if (got != want) report_bad("struct_unions", idx, k, u, got, want);
        got = search_in_enums(&ctx, P[u], L[u]);
        if (got != want) report_bad("enums", idx, k, u, got, want);
        got = search_in_typenames(&ctx, P[u], L[u]);
        if (got != want) report_bad("typenames", idx, k, u, got, want);
        /* search_sorted itself with an item size no real table has */
        got = search_sorted((const char *const *)&o[0].name, sizeof(o[0]), k, P[u], L[u]);
        if (got != want) report_bad("search_sorted", idx, k, u, got, want);
        n_calls += 5;
    }
}

/* subset mode: small tables on the stack (one zeroed entry behind the last one) */
static void run_set(const int *idx, int k)
{
    struct _cffi_global_s       g[MAXK + 1];
    struct _cffi_struct_union_s s[MAXK + 1];
    struct _cffi_enum_s         e[MAXK + 1];
    struct _cffi_typename_s     t[MAXK + 1];
    struct odd_item             o[MAXK + 1];

    memset(g, 0, sizeof(g)); memset(s, 0, sizeof(s));
    memset(e, 0, sizeof(e)); memset(t, 0, sizeof(t)); memset(o, 0, sizeof(o));
    run_tables(idx, k, g, s, e, t, o);
}

/* mode W: exactly-sized heap tables, an access to entry -1 or entry k is an ASan report
   (too slow for the 1.3 M tables of the subset mode: ASan's malloc) */
static void run_set_heap(const int *idx, int k)
{
    struct _cffi_global_s       *g = calloc(k, sizeof(*g));
    struct _cffi_struct_union_s *s = calloc(k, sizeof(*s));
    struct _cffi_enum_s         *e = calloc(k, sizeof(*e));
    struct _cffi_typename_s     *t = calloc(k, sizeof(*t));
    struct odd_item             *o = calloc(k, sizeof(*o));

    if (!g || !s || !e || !t || !o) { fprintf(stderr, "out of memory\n"); exit(2); }
    run_tables(idx, k, g, s, e, t, o);
    free(g); free(s); free(e); free(t); free(o);
}

static void rec(int *idx, int depth, int start, int kmax)
{
    int i;
    for (i = start; i < N; i++) {
        idx[depth] = i;
        run_set(idx, depth + 1);
        if (depth + 1 < kmax)
            rec(idx, depth + 1, i + 1, kmax);
    }
}

int main(int argc, char **argv)
{
    FILE *f;
    char line[128];
    int kmax, lo, hi, i, j, k, n, wmode, idx[MAXN + 1];

    if (argc != 5) { fprintf(stderr, "usage\n"); return 2; }
    f = fopen(argv[1], "r");
    if (!f) { perror("names"); return 2; }
    while (fgets(line, sizeof line, f)) {
        size_t n = strlen(line);
        while (n && (line[n - 1] == '\n' || line[n - 1] == '\r')) line[--n] = 0;
        if (!n) continue;
        if (N >= MAXN) { fprintf(stderr, "too many names\n"); return 2; }
        U[N] = malloc(n + 1); memcpy(U[N], line, n + 1);
        P[N] = malloc(n);     memcpy(P[N], line, n);
        L[N] = n;
        N++;
    }
    fclose(f);
    wmode = (argv[2][0] == 'W');
    kmax = wmode ? 0 : atoi(argv[2]); lo = atoi(argv[3]); hi = atoi(argv[4]);
    if (kmax > MAXK) { fprintf(stderr, "kmax too large\n"); return 2; }

    for (i = 0; i < N; i++)
        for (j = 0; j < N; j++) {
            size_t a = L[i], b = L[j];
            if (a == b && memcmp(U[i], U[j], a) == 0) REL[i][j] = 1;
            else if (a < b && memcmp(U[i], U[j], a) == 0) REL[i][j] = 2;
            else if (b < a && memcmp(U[i], U[j], b) == 0) REL[i][j] = 3;
            else if (U[i][0] == U[j][0]) REL[i][j] = 4;
            else REL[i][j] = 0;
        }
    /* the order handed over must be strict for the "position in S" oracle to be well defined */
    for (i = 0; i + 1 < N; i++)
        if (REL[i][i + 1] == 1) { fprintf(stderr, "duplicate name in universe\n"); return 2; }

    if (wmode) {
        for (i = lo; i < hi && i < N; i++) {
            for (j = i + 1; j <= N; j++) {          /* window [i, j) */
                for (n = 0; n < j - i; n++) idx[n] = i + n;
                run_set_heap(idx, j - i);
            }
            for (k = i + 1; k < N; k++) {           /* offset i, step k */
                if (k < 2) continue;
                for (n = 0, j = i; j < N; j += k) idx[n++] = j;
                run_set_heap(idx, n);
            }
        }
        kmax = N;
    }
    else if (lo == 0)
        run_set(idx, 0);                 /* the empty table (non-NULL base, length 0) */
    if (!wmode && kmax >= 1)
        for (i = lo; i < hi && i < N; i++) {
            idx[0] = i;
            run_set(idx, 1);
            if (kmax > 1)
                rec(idx, 1, i + 1, kmax);
        }
    printf("DONE sets=%lld calls=%lld found=%lld notfound=%lld bad=%lld "
           "cls=%lld,%lld,%lld,%lld,%lld sizes=",
           n_sets, n_calls, n_found, n_notfound, n_bad,
           cls[0], cls[1], cls[2], cls[3], cls[4]);
    for (i = 0; i <= kmax; i++)
        printf("%s%lld", i ? "," : "", by_size[i]);
    printf("\n");
    return 0;
}
