/* One "CFFI-embedded library": the UNCHANGED text of src/cffi/_embedding.h,
 * surrounded by what the code generator emits around it.  Compiled twice
 * (-DLIBID=0 / -DLIBID=1) so that two libraries share one stub libpython. */
#include <Python.h>          /* harness/c28/fakepy/Python.h */
#include "world.h"

#define CAT_(a, b) a##b
#define CAT(a, b) CAT_(a, b)
#define STR_(x) #x
#define STR(x) STR_(x)

struct _cffi_externpy_s {
    const char *name;
    size_t size_of_result;
    void *reserved1, *reserved2;
};

#define _CFFI_UNUSED_FN  __attribute__((unused))
#define _CFFI_NUM_EXPORTS 28
static void *_cffi_exports[_CFFI_NUM_EXPORTS];
#define _CFFI_CPIDX  25
#define _cffi_call_python                                                \
    ((void(*)(struct _cffi_externpy_s *, char *))_cffi_exports[_CFFI_CPIDX])

#define _CFFI_MODULE_NAME  "lib" STR(LIBID)
#define _CFFI_PYTHON_STARTUP_CODE  "L" STR(LIBID)
#define _CFFI_PYTHON_STARTUP_FUNC  CAT(PyInit_lib, LIBID)

static void CAT(stub_call_python_, LIBID)(struct _cffi_externpy_s *e, char *args)
{
    verif_call_python(LIBID, e, args);
}

/* what the real module init does as far as embedding is concerned: it copies
   _cffi_backend's exports, among them cffi_call_python, into _cffi_exports[] */
PyMODINIT_FUNC CAT(PyInit_lib, LIBID)(void)
{
    verif_event("MODINIT %d %d", LIBID, verif_tid());
    if (verif_modinit_fails(LIBID))
        return (PyObject *)0;        /* exception set, _cffi_exports[] never filled in */
    _cffi_exports[_CFFI_CPIDX] = (void *)CAT(stub_call_python_, LIBID);
    return (PyObject *)0;
}

#include EMBEDDING_H      /* "<repo>/src/cffi/_embedding.h", unchanged */

/* an extern "Python" function, as recompiler.py writes it */
static struct _cffi_externpy_s _cffi_externpy__f =
  { "lib" STR(LIBID) ".f", (int)sizeof(int), 0, 0 };

int CAT(lib_f_, LIBID)(int a0)
{
  char a[8];
  char *p = a;
  memset(a, 0x55, sizeof a);
  *(int *)(p + 0) = a0;
  _cffi_call_python(&_cffi_externpy__f, p);
  return *(int *)p;
}

/* an extern "Python" function returning a 24-byte struct (audit gap 5: the zeroing must cover
   size_of_result bytes, whatever the type).  Instead of the struct this wrapper returns what it
   found in the result buffer: 0 = all 24 bytes zero, 1 = the 24 bytes the stub function writes
   (0x11), 2 = anything else (e.g. part of the 0x55 pre-fill left). */
struct CAT(big_, LIBID) { long a, b, c; };
static struct _cffi_externpy_s _cffi_externpy__g =
  { "lib" STR(LIBID) ".g", (int)sizeof(struct CAT(big_, LIBID)), 0, 0 };

int CAT(lib_g_, LIBID)(int a0)
{
  char a[24];
  char *p = a;
  int i, zero = 1, full = 1;
  memset(a, 0x55, sizeof a);
  *(int *)(p + 0) = a0;
  _cffi_call_python(&_cffi_externpy__g, p);
  for (i = 0; i < 24; i++) {
    if (p[i] != 0) zero = 0;
    if (p[i] != 0x11) full = 0;
  }
  return zero ? 0 : full ? 1 : 2;
}

int CAT(lib_start_, LIBID)(void)
{
  return cffi_start_python();
}
