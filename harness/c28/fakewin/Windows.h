/* A fake <Windows.h>, exactly as wide as the `#ifdef _MSC_VER` arms of `_embedding.h`
 * (compile variant "msvc" of check C28: -D_MSC_VER=1900 -DCFFI_MESSAGEBOX=0).  The Win32 calls are
 * mapped to the scheduler-visible primitives of world.c, with the Win32 argument order and
 * return conventions:  InterlockedCompareExchangePointer(dest, exchange, comparand) returns the
 * value *dest had before the operation. */
#ifndef C28_FAKE_WINDOWS_H
#define C28_FAKE_WINDOWS_H
#include "world.h"
typedef int LONG;
typedef unsigned int DWORD;
typedef struct { int fake; } CRITICAL_SECTION;
#define InterlockedCompareExchangePointer(l, n, o) \
        verif_icx((void *volatile *)(l), (void *)(long)(n), (void *)(long)(o))
#define InterlockedCompareExchange(l, n, o)  ((void)(l), verif_barrier(), 0)
#define InitializeCriticalSection(m)  ((void)verif_mutex_init((void *)(m)))
#define EnterCriticalSection(m)       ((void)verif_mutex_lock((void *)(m)))
#define LeaveCriticalSection(m)       ((void)verif_mutex_unlock((void *)(m)))
#define GetLastError()   (0)
#define SetLastError(x)  ((void)(x))
#endif
