/* A stub CPython, exactly as wide as the calls `_embedding.h` makes (trusted base
 * of check C28).  The bodies are in world.c and are scheduler-visible. */
#ifndef FAKE_PYTHON_H
#define FAKE_PYTHON_H
#include <stddef.h>
#include <stdio.h>
#include <string.h>
#include <errno.h>

#ifdef FAKE_PY_VERSION_HEX          /* compile variant "py311" of check C28 */
# define PY_VERSION_HEX FAKE_PY_VERSION_HEX
#else
# define PY_VERSION_HEX 0x030C0100
#endif
#define WITH_THREAD 1

typedef struct _object { long ob_refcnt; } PyObject;
typedef struct { void *bf_getbuffer; void *bf_releasebuffer; } PyBufferProcs;
typedef struct _typeobject {
    PyBufferProcs *tp_as_buffer;
    unsigned long tp_flags;
    unsigned int tp_version_tag;
} PyTypeObject;
extern PyTypeObject PyCapsule_Type;        /* lives in "libpython" = world.c */
typedef int PyGILState_STATE;
typedef struct _ts { int dummy; } PyThreadState;

#define PyMODINIT_FUNC PyObject *
#define Py_file_input 257
extern PyObject _Py_NoneStruct;
#define Py_None (&_Py_NoneStruct)
#define Py_XDECREF(x) ((void)(x))
#define Py_DECREF(x) ((void)(x))
#define Py_TPFLAGS_HAVE_VERSION_TAG (1UL << 18)

int Py_IsInitialized(void);
void Py_InitializeEx(int);
PyThreadState *PyEval_SaveThread(void);
PyGILState_STATE PyGILState_Ensure(void);
void PyGILState_Release(PyGILState_STATE);
PyObject *Py_CompileString(const char *, const char *, int);
PyObject *PyDict_New(void);
PyObject *PyEval_GetBuiltins(void);
int PyDict_SetItemString(PyObject *, const char *, PyObject *);
PyObject *PyEval_EvalCode(PyObject *, PyObject *, PyObject *);
PyObject *PyErr_Occurred(void);
void PyErr_Fetch(PyObject **, PyObject **, PyObject **);
PyObject *PySys_GetObject(const char *);
int PyFile_WriteString(const char *, PyObject *);
void PyErr_NormalizeException(PyObject **, PyObject **, PyObject **);
void PyErr_Display(PyObject *, PyObject *, PyObject *);
PyObject *PyImport_GetModuleDict(void);
PyObject *PyDict_GetItemString(PyObject *, const char *);
PyObject *PyObject_GetAttrString(PyObject *, const char *);
int PyFile_WriteObject(PyObject *, PyObject *, int);
#endif
