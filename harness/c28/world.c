/* C28 / engine E4: the world around two copies of `_embedding.h`:
 *   - a baton scheduler over pthreads (one runnable thread at a time),
 *   - scheduler-visible CAS / mutex / assert / barrier,
 *   - a stub libpython (GIL, Py_InitializeEx, EvalCode running scripted init code),
 *   - the preemption-bounded depth-first explorer (one forked child per execution).
 *
 * usage: world <nlibs> <init0><init1>[:<world>] <bound> <maxexec> <prog0> <prog1> [<prog2>]
 *   init: O ok | F fail | R ok+recursive call of own function | X ok+call of the other
 *         library's function | G ok, GIL released in the middle | S fail after recursive call
 *         M the module init raises (PyErr_Occurred() after _CFFI_PYTHON_STARTUP_FUNC; the exports
 *         table is never filled) | C the init code does not compile (Py_CompileString NULL)
 *   world (initial state; default: Python not initialised, nobody owns the GIL):
 *         P      = Python is already initialised when the threads start, the GIL is free
 *                  (the library is loaded into a running interpreter; callers came through
 *                  a GIL-releasing FFI such as ctypes.CDLL / cffi's own lib.f())
 *         H<k..> = P, and each listed thread takes the GIL before its first program
 *                  operation and keeps it until its program ends (a C-extension / PyDLL
 *                  caller); the stub Python still releases it where real Python would
 *                  (around C calls made by the init code, init kind G)
 *   prog: string over {0,1,g,h,s,t}: 0/1 = call lib_f_<n>(7); s/t = cffi_start_python() of lib 0/1;
 *         g/h = call lib_g_<n>(7), whose extern "Python" function returns a 24-byte struct
 * output: one line per DISTINCT event log:  LOG <count> <choices,...> | ev;ev;...
 *         and a final STAT line.  Exit status 0, or 3 on harness failure.
 */
#define _GNU_SOURCE
#include <Python.h>
#include <pthread.h>
#include <semaphore.h>
#include <stdarg.h>
#include <stdlib.h>
#include <signal.h>
#include <unistd.h>
#include <sys/wait.h>

struct _cffi_externpy_s { const char *name; size_t size_of_result; void *r1, *r2; };

int lib_f_0(int), lib_f_1(int), lib_g_0(int), lib_g_1(int), lib_start_0(void), lib_start_1(void);

/* ------------------------------------------------------------------ scheduler */
#define MAXT 4
#define MAXD 600
#define MAXLOG 16384

typedef struct {
    int id; sem_t sem; pthread_t th; int finished; int yielded;
    int wait_kind;         /* 0 none, 1 mutex, 2 gil */
    void *wait_obj;
    const char *prog;
} thr_t;

static thr_t T[MAXT];
static int NT;
static __thread thr_t *me;
static int cur = -1;
static sem_t ctl;
static int prefix[MAXD], nprefix;
static int choices[MAXD], nen[MAXD], still[MAXD], nch;
static char logbuf[MAXLOG]; static int loglen;
static int aborted, deadlock, livelock, infra, horizon;
static int spin_count;     /* consecutive yields of the only enabled thread */
static int last_run[MAXT];
static long progress;      /* steps that change shared state (anything but a failed spin) */
static long yield_stamp[MAXT];

/* world state */
static int nlibs; static char initkind[2];
static int gil_owner = -1;
static int py_initialized = 0;
static int pre_init;       /* world P / H: Python already initialised */
static int held_mask;      /* world H: bit k = thread k makes its calls while owning the GIL */
struct mtx { void *addr; int owner; int count; };
static struct mtx MT[8]; static int nmt;

int verif_tid(void) { return me ? me->id : -1; }

void verif_event(const char *fmt, ...)
{
    va_list ap; int n;
    progress++;
    if (loglen > MAXLOG - 200) { infra = 1; return; }
    va_start(ap, fmt);
    n = vsnprintf(logbuf + loglen, MAXLOG - loglen - 2, fmt, ap);
    va_end(ap);
    loglen += n;
    logbuf[loglen++] = ';';
    logbuf[loglen] = 0;
}

static struct mtx *find_mtx(void *addr)
{
    int i;
    for (i = 0; i < nmt; i++) if (MT[i].addr == addr) return &MT[i];
    MT[nmt].addr = addr; MT[nmt].owner = -1; MT[nmt].count = 0;
    return &MT[nmt++];
}

static int spinning(thr_t *t)
{
    /* a thread whose last step was a failed spin is not worth running again until some
       other thread changed the shared state */
    return t->yielded && progress <= yield_stamp[t->id];
}

static int enabled(thr_t *t)
{
    if (t->finished) return 0;
    if (t->wait_kind == 1) {
        struct mtx *m = find_mtx(t->wait_obj);
        return m->owner == -1 || m->owner == t->id;
    }
    if (t->wait_kind == 2)
        return gil_owner == -1;
    return 1;
}

/* returns next thread index or -1 (all finished / deadlock / infra).
   Fairness: a thread that yielded (failed CAS, spin-loop assert) is not enabled again
   until some other thread has moved -- unless it is the only thread that can move, in
   which case a bounded number of lone spins is a livelock. */
static int decide(int c)
{
    int order[MAXT], n = 0, i, alive = 0, st = 0, k, ch;
    for (i = 0; i < NT; i++) if (!T[i].finished) alive++;
    if (!alive) { cur = -1; return -1; }
    if (c >= 0 && enabled(&T[c]) && !spinning(&T[c])) { order[n++] = c; st = 1; }
    /* the other threads, least recently run first (so that a lock holder is never starved
       by two threads spinning against each other) */
    {
        int base = n, j;
        for (i = 0; i < NT; i++) if (i != c && enabled(&T[i]) && !spinning(&T[i])) order[n++] = i;
        for (i = base + 1; i < n; i++)
            for (j = i; j > base && last_run[order[j]] < last_run[order[j - 1]]; j--) {
                int tmp = order[j]; order[j] = order[j - 1]; order[j - 1] = tmp;
            }
    }
    if (n == 0) {
        for (i = 0; i < NT; i++) if (enabled(&T[i]) && spinning(&T[i])) order[n++] = i;
        if (n == 0) { deadlock = 1; cur = -1; return -1; }
        if (++spin_count > 12) { livelock = 1; cur = -1; return -1; }
    }
    else
        spin_count = 0;
    k = nch;
    if (k >= MAXD - 1) { horizon = 1; cur = -1; return -1; }   /* ten times the longest normal run */
    ch = 0;
    if (k < nprefix) {
        ch = prefix[k];
        if (ch >= n) { infra = 3; cur = -1; return -1; }
    }
    nen[k] = n; still[k] = st; choices[k] = ch; nch++;
    cur = order[ch];
    last_run[cur] = nch;
    T[cur].yielded = 0;
    return cur;
}

static void handoff(thr_t *t)
{
    int nxt = decide(t->id);
    if (nxt == t->id) return;
    if (nxt < 0) sem_post(&ctl); else sem_post(&T[nxt].sem);
    if (!t->finished) {
        sem_wait(&t->sem);
        if (aborted) pthread_exit(NULL);
    }
}

void verif_point(const char *label)
{
    (void)label;
    if (!me) return;
    progress++;
    handoff(me);
}

static void quiet_point(void)      /* a decision that does not count as progress */
{
    if (!me) return;
    handoff(me);
}

static void yield_point(void)
{
    if (!me) return;
    me->yielded = 1;
    yield_stamp[me->id] = progress;
    handoff(me);
}

/* ------------------------------------------------------------------ primitives */
int verif_cas(void *volatile *l, void *o, void *n)
{
    quiet_point();
    if (*l == o) { *l = n; progress++; return 1; }
    yield_point();                 /* failed CAS inside a spin loop: let the others move */
    return 0;
}

int verif_cas32(volatile int *l, int o, int n)
{
    quiet_point();
    if (*l == o) { *l = n; progress++; return 1; }
    yield_point();
    return 0;
}

/* InterlockedCompareExchangePointer(dest, exchange, comparand): returns the previous value */
void *verif_icx(void *volatile *l, void *n, void *o)
{
    void *old;
    quiet_point();
    old = *l;
    if (old == o) { *l = n; progress++; return old; }
    yield_point();
    return old;
}

void verif_barrier(void) { verif_point("barrier"); }

void verif_assert(int ok, const char *text)
{
    if (!ok) verif_event("ASSERTFAIL %d %s", verif_tid(), text);
    /* (variant py311) the assert on PyCapsule_Type.tp_flags at the top of _cffi_carefully_make_gil
       reads a word nobody writes and is not in a loop: no scheduling point, and above all no
       free (unbounded) thread switch, which multiplied the schedules of 3 threads by six */
    if (strstr(text, "tp_flags")) return;
    /* the only statement in the `else` arm of the spin loop of
       _cffi_carefully_make_gil is an assert: this is that loop's yield */
    yield_point();
}

int verif_mutex_init(void *m)
{
    struct mtx *x;
    verif_point("mutex_init");
    x = find_mtx(m);
    if (x->owner != -1) verif_event("MUTEX-REINIT-WHILE-HELD %d", verif_tid());
    x->owner = -1; x->count = 0;
    verif_event("MUTEXINIT %d", verif_tid());
    return 0;
}

int verif_mutex_lock(void *m)
{
    struct mtx *x = find_mtx(m);
    if (me) { me->wait_kind = 1; me->wait_obj = m; handoff(me); me->wait_kind = 0; }
    if (x->owner != -1 && x->owner != verif_tid()) { infra = 4; }
    x->owner = verif_tid(); x->count++;
    progress++;
    return 0;
}

int verif_mutex_unlock(void *m)
{
    struct mtx *x = find_mtx(m);
    if (x->owner != verif_tid()) verif_event("UNLOCK-NOT-OWNER %d", verif_tid());
    if (--x->count == 0) x->owner = -1;
    verif_point("unlocked");
    return 0;
}

/* ------------------------------------------------------------------ stub libpython */
PyTypeObject PyCapsule_Type = { 0, 0, 0 };   /* tp_as_buffer NULL, no HAVE_VERSION_TAG, tp_version_tag 0 */
PyObject _Py_NoneStruct;
static PyObject dummy_obj;
static int init_thread[2] = { -1, -1 };
static int init_done[2];

static void gil_acquire(void)
{
    if (me) { me->wait_kind = 2; handoff(me); me->wait_kind = 0; }
    if (gil_owner != -1) infra = 5;
    gil_owner = verif_tid();
    progress++;
}
static void gil_release(void)
{
    if (gil_owner != verif_tid()) verif_event("GIL-RELEASE-NOT-OWNER %d", verif_tid());
    gil_owner = -1;
    verif_point("gil_released");
}

int Py_IsInitialized(void) { verif_point("isinit"); return py_initialized; }

void Py_InitializeEx(int sigs)
{
    (void)sigs;
    verif_event("PYINIT %d", verif_tid());
    verif_point("pyinit-mid");          /* initialisation takes a while */
    py_initialized = 1;
    if (gil_owner != -1) verif_event("PYINIT-GIL-ALREADY-HELD %d", verif_tid());
    gil_owner = verif_tid();            /* Py_Initialize leaves the caller holding the GIL */
}

PyThreadState *PyEval_SaveThread(void) { static PyThreadState ts; gil_release(); return &ts; }

PyGILState_STATE PyGILState_Ensure(void)
{
    if (!py_initialized) verif_event("GILSTATE-BEFORE-PYINIT %d", verif_tid());
    if (gil_owner == verif_tid()) return 1;      /* PyGILState_LOCKED */
    gil_acquire();
    return 0;                                     /* PyGILState_UNLOCKED */
}
void PyGILState_Release(PyGILState_STATE st) { if (st == 0) gil_release(); }

PyObject *Py_CompileString(const char *code, const char *fn, int x)
{
    int lib = code[1] - '0';
    (void)fn; (void)x;
    if (initkind[lib] == 'C') {    /* SyntaxError in the init code */
        verif_event("INITEND %d %d fail", lib, verif_tid());
        init_done[lib] = -1;
        return NULL;
    }
    return (PyObject *)code;       /* the "code object" is the script text "L<n>" */
}
PyObject *PyDict_New(void) { return &dummy_obj; }
PyObject *PyEval_GetBuiltins(void) { return &dummy_obj; }
int PyDict_SetItemString(PyObject *d, const char *k, PyObject *v) { (void)d; (void)k; (void)v; return 0; }
/* _embedding.h asks PyErr_Occurred() once, right after the module init function of its library */
static __thread int modinit_lib = -1;
int verif_modinit_fails(int lib) { modinit_lib = lib; return initkind[lib] == 'M'; }
PyObject *PyErr_Occurred(void)
{
    int lib = modinit_lib;
    modinit_lib = -1;
    if (lib >= 0 && initkind[lib] == 'M') {
        verif_event("INITEND %d %d fail", lib, verif_tid());
        init_done[lib] = -1;
        return &dummy_obj;
    }
    return NULL;
}
void PyErr_Fetch(PyObject **a, PyObject **b, PyObject **c) { *a = *b = *c = NULL; }
PyObject *PySys_GetObject(const char *n) { (void)n; return NULL; }
int PyFile_WriteString(const char *s, PyObject *f) { (void)s; (void)f; return 0; }
void PyErr_NormalizeException(PyObject **a, PyObject **b, PyObject **c) { (void)a; (void)b; (void)c; }
void PyErr_Display(PyObject *a, PyObject *b, PyObject *c) { (void)a; (void)b; (void)c; }
PyObject *PyImport_GetModuleDict(void) { return &dummy_obj; }
PyObject *PyDict_GetItemString(PyObject *d, const char *k) { (void)d; (void)k; return NULL; }
PyObject *PyObject_GetAttrString(PyObject *o, const char *k) { (void)o; (void)k; return NULL; }
int PyFile_WriteObject(PyObject *a, PyObject *b, int c) { (void)a; (void)b; (void)c; return 0; }

static int call_lib(int lib, int arg)
{
    return lib == 0 ? lib_f_0(arg) : lib_f_1(arg);
}

/* a C call made by Python code through cffi: the GIL is released around it */
static int call_from_python(int lib, int arg)
{
    int r;
    gil_release();
    r = call_lib(lib, arg);
    gil_acquire();
    return r;
}

PyObject *PyEval_EvalCode(PyObject *code, PyObject *g, PyObject *l)
{
    int lib = ((const char *)code)[1] - '0';
    char kind = initkind[lib];
    int r;
    (void)g; (void)l;
    if (gil_owner != verif_tid()) verif_event("INITCODE-WITHOUT-GIL %d", verif_tid());
    verif_event("INITSTART %d %d", lib, verif_tid());
    init_thread[lib] = verif_tid();
    verif_point("init-code");
    switch (kind) {
    case 'R': case 'S':
        r = call_from_python(lib, 3);
        verif_event("RECRET %d %d %d", lib, verif_tid(), r);
        break;
    case 'X':
        if (nlibs > 1) {
            r = call_from_python(1 - lib, 4);
            verif_event("XRET %d %d %d", 1 - lib, verif_tid(), r);
        }
        break;
    case 'G':
        gil_release();
        verif_point("init-code-gil-released");
        gil_acquire();
        break;
    default:
        break;
    }
    verif_point("init-code-end");
    if (kind == 'F' || kind == 'S') {
        verif_event("INITEND %d %d fail", lib, verif_tid());
        init_done[lib] = -1;
        return NULL;
    }
    verif_event("INITEND %d %d ok", lib, verif_tid());
    init_done[lib] = 1;
    return &dummy_obj;
}

/* _cffi_backend's cffi_call_python: runs the @ffi.def_extern function */
void verif_call_python(int lib, struct _cffi_externpy_s *e, char *args)
{
    PyGILState_STATE st;
    verif_event("EXTERN %d %d", lib, verif_tid());
    st = PyGILState_Ensure();
    verif_point("extern-body");
    if (e->size_of_result == 24)
        memset(args, 0x11, 24);                  /* lib_g_<n>: a 24-byte struct result */
    else
        *(int *)args = *(int *)args + 1000 * (lib + 1);
    PyGILState_Release(st);
}

/* ------------------------------------------------------------------ thread programs */
static void *thread_main(void *arg)
{
    thr_t *t = (thr_t *)arg;
    const char *p;
    me = t;
    sem_wait(&t->sem);
    if (aborted) return NULL;
    if (held_mask & (1 << t->id)) {
        /* world H: this caller owns the GIL while it calls into the libraries */
        gil_acquire();
        verif_event("GILHELD %d", t->id);
    }
    for (p = t->prog; *p; p++) {
        int r;
        verif_point("before-call");
        switch (*p) {
        case '0': case '1':
            verif_event("CALL %d %d", *p - '0', t->id);
            r = call_lib(*p - '0', 7);
            verif_event("RET %d %d %d", *p - '0', t->id, r);
            break;
        case 'g': case 'h':
            verif_event("CALL %d %d", *p - 'g', t->id);
            r = (*p == 'g') ? lib_g_0(7) : lib_g_1(7);
            verif_event("RETG %d %d %d", *p - 'g', t->id, r);
            break;
        case 's': case 't':
            verif_event("START %d %d", *p - 's', t->id);
            r = (*p == 's') ? lib_start_0() : lib_start_1();
            verif_event("STARTRET %d %d %d", *p - 's', t->id, r);
            break;
        }
    }
    if (held_mask & (1 << t->id)) {
        if (gil_owner != t->id) verif_event("GIL-LOST-BY-HOLDER %d", t->id);
        else { gil_owner = -1; progress++; }
    }
    else if (gil_owner == t->id)
        verif_event("GIL-LEAKED %d", t->id);     /* a caller that came without the GIL leaves with it */
    t->finished = 1;
    progress++;
    handoff(t);
    return NULL;
}

static void run_execution(int nthreads, char **progs, int outfd)
{
    int i, first;
    char head[8192]; int hl = 0;
    sem_init(&ctl, 0, 0);
    NT = nthreads;
    for (i = 0; i < NT; i++) {
        T[i].id = i; T[i].prog = progs[i]; T[i].finished = 0; T[i].yielded = 0; T[i].wait_kind = 0;
        sem_init(&T[i].sem, 0, 0);
        pthread_create(&T[i].th, NULL, thread_main, &T[i]);
    }
    alarm(20);
    if (pre_init) { py_initialized = 1; verif_event("PREINIT"); }
    first = decide(-1);
    if (first >= 0) { sem_post(&T[first].sem); sem_wait(&ctl); }
    if (deadlock) {
        /* the wait-for graph: <tid>:m<owner of the mutex> | <tid>:g<owner of the GIL>, +G = owns the GIL */
        char wf[160]; int wl = 0;
        for (i = 0; i < NT; i++) {
            if (T[i].finished) continue;
            if (T[i].wait_kind == 1)
                wl += snprintf(wf + wl, sizeof wf - wl, " %d:m%d%s", i, find_mtx(T[i].wait_obj)->owner,
                               gil_owner == i ? "+G" : "");
            else if (T[i].wait_kind == 2)
                wl += snprintf(wf + wl, sizeof wf - wl, " %d:g%d", i, gil_owner);
            else
                wl += snprintf(wf + wl, sizeof wf - wl, " %d:?", i);
        }
        verif_event("DEADLOCK%s", wf);
    }
    if (livelock) verif_event("LIVELOCK");
    if (horizon) verif_event("HORIZON");
    /* header: infra, nch, then (choice,nen,still) triples */
    hl += snprintf(head + hl, sizeof head - hl, "%d %d", infra, nch);
    for (i = 0; i < nch && hl < (int)sizeof head - 32; i++)
        hl += snprintf(head + hl, sizeof head - hl, " %d,%d,%d", choices[i], nen[i], still[i]);
    head[hl++] = '\n';
    if (write(outfd, head, hl) < 0) _exit(3);
    if (write(outfd, logbuf, loglen) < 0) _exit(3);
    _exit(0);
}

/* ------------------------------------------------------------------ explorer */
struct logent { char *log; long count; char *sched; };
static struct logent *LOGS; static int nlogs, caplogs;

static void note_log(const char *log, const int *ch, int n)
{
    int i;
    for (i = 0; i < nlogs; i++)
        if (strcmp(LOGS[i].log, log) == 0) { LOGS[i].count++; return; }
    if (nlogs == caplogs) { caplogs = caplogs ? caplogs * 2 : 256; LOGS = realloc(LOGS, caplogs * sizeof *LOGS); }
    LOGS[nlogs].log = strdup(log);
    LOGS[nlogs].count = 1;
    {
        char *s = malloc(n * 4 + 4); int l = 0;
        s[0] = 0;
        for (i = 0; i < n; i++) l += sprintf(s + l, i ? ",%d" : "%d", ch[i]);
        LOGS[nlogs].sched = s;
    }
    nlogs++;
}

struct pfx { int n; int *c; };

int main(int argc, char **argv)
{
    int bound, nthreads, i;
    long nexec = 0, ndec = 0, maxdec = 0, ncrash = 0;
    struct pfx *stack; int sp = 0, cap = 1024;
    long max_exec;
    if (argc < 6) { fprintf(stderr, "usage\n"); return 3; }
    nlibs = atoi(argv[1]);
    initkind[0] = argv[2][0]; initkind[1] = (argv[2][1] && argv[2][1] != ':') ? argv[2][1] : 'O';
    {
        char *w = strchr(argv[2], ':');
        if (w) {
            w++;
            if (*w == 'P' && !w[1]) pre_init = 1;
            else if (*w == 'H' && w[1]) {
                pre_init = 1;
                for (w++; *w; w++) {
                    if (*w < '0' || *w >= '0' + MAXT) { fprintf(stderr, "bad world\n"); return 3; }
                    held_mask |= 1 << (*w - '0');
                }
            }
            else if (*w) { fprintf(stderr, "bad world\n"); return 3; }
        }
    }
    bound = atoi(argv[3]);
    max_exec = atol(argv[4]);
    nthreads = argc - 5;
    if (nthreads > MAXT && strcmp(argv[5], "--replay") != 0) return 3;
    if (argc >= 6 && strcmp(argv[5], "--replay") == 0) {
        /* world nlibs init bound max --replay c0,c1,... prog... : print one execution's log */
        char *s = argv[6]; int n = 0; int pfd[2]; pid_t pid; char buf[MAXLOG + 9000]; int got = 0, r;
        while (*s) { prefix[n++] = (int)strtol(s, &s, 10); if (*s == ',') s++; }
        nprefix = n;
        nthreads = argc - 7;
        if (pipe(pfd) < 0) return 3;
        pid = fork();
        if (pid == 0) { close(pfd[0]); if (!freopen("/dev/null", "w", stderr)) {} run_execution(nthreads, argv + 7, pfd[1]); }
        close(pfd[1]);
        while ((r = read(pfd[0], buf + got, sizeof buf - 1 - got)) > 0) got += r;
        buf[got] = 0;
        waitpid(pid, &r, 0);
        printf("%s\n", buf);
        if (!WIFEXITED(r)) printf("CRASH signal %d\n", WTERMSIG(r));
        return 0;
    }
    stack = malloc(cap * sizeof *stack);
    stack[sp].n = 0; stack[sp].c = NULL; sp++;
    while (sp > 0) {
        struct pfx p = stack[--sp];
        int pfd[2]; pid_t pid; int status;
        static char buf[MAXLOG + 9000]; int got = 0, r;
        int cinf, cn, ch[MAXD], en[MAXD], st[MAXD], pre[MAXD + 1];
        char *q, *logstart;
        if (max_exec > 0 && nexec >= max_exec) { printf("CAPPED %ld\n", nexec); break; }
        nprefix = p.n;
        for (i = 0; i < p.n; i++) prefix[i] = p.c[i];
        if (pipe(pfd) < 0) return 3;
        fflush(stdout);
        pid = fork();
        if (pid < 0) return 3;
        if (pid == 0) {
            close(pfd[0]);
            if (!freopen("/dev/null", "w", stderr)) {}
            run_execution(nthreads, argv + 5, pfd[1]);
        }
        close(pfd[1]);
        while ((r = read(pfd[0], buf + got, sizeof buf - 1 - got)) > 0) got += r;
        close(pfd[0]);
        buf[got] = 0;
        waitpid(pid, &status, 0);
        nexec++;
        if (!WIFEXITED(status)) {
            if (WTERMSIG(status) == SIGALRM) { printf("INFRA lost-control\n"); return 3; }
            /* the library code crashed (e.g. called a NULL function pointer) */
            {
                char msg[64]; snprintf(msg, sizeof msg, "CRASH signal %d;", WTERMSIG(status));
                note_log(msg, p.c, p.n);
            }
            ncrash++;
            free(p.c);
            continue;
        }
        if (WEXITSTATUS(status) != 0) { printf("INFRA child-exit %d\n", WEXITSTATUS(status)); return 3; }
        q = buf;
        cinf = (int)strtol(q, &q, 10); cn = (int)strtol(q, &q, 10);
        if (cinf) {
            printf("INFRA code %d prefix=", cinf);
            for (i = 0; i < p.n; i++) printf("%d,", p.c[i]);
            printf("\n");
            return 3;
        }
        for (i = 0; i < cn; i++) {
            ch[i] = (int)strtol(q, &q, 10); q++;
            en[i] = (int)strtol(q, &q, 10); q++;
            st[i] = (int)strtol(q, &q, 10);
        }
        logstart = strchr(q, '\n');
        logstart = logstart ? logstart + 1 : q;
        note_log(logstart, ch, cn);
        ndec += cn; if (cn > maxdec) maxdec = cn;
        pre[0] = 0;
        for (i = 0; i < cn; i++) pre[i + 1] = pre[i] + ((st[i] && ch[i] != 0) ? 1 : 0);
        for (i = cn - 1; i >= p.n; i--) {
            int alt, cost;
            if (en[i] < 2) continue;
            cost = pre[i] + (st[i] ? 1 : 0);
            if (bound >= 0 && cost > bound) continue;
            for (alt = 1; alt < en[i]; alt++) {
                int *c = malloc((i + 1) * sizeof(int));
                memcpy(c, ch, i * sizeof(int));
                c[i] = alt;
                if (sp == cap) { cap *= 2; stack = realloc(stack, cap * sizeof *stack); }
                stack[sp].n = i + 1; stack[sp].c = c; sp++;
            }
        }
        free(p.c);
    }
    for (i = 0; i < nlogs; i++)
        printf("LOG %ld %s | %s\n", LOGS[i].count, LOGS[i].sched, LOGS[i].log);
    printf("STAT executions=%ld decisions=%ld maxdecisions=%ld distinct=%d crashes=%ld\n",
           nexec, ndec, maxdec, nlogs, ncrash);
    return 0;
}
