/* Scheduler-visible replacements for the primitives `_embedding.h` uses.
 * Included by lib.c AFTER <pthread.h> and <assert.h> (whose include guards make
 * the header's own #include <pthread.h> a no-op), BEFORE `_embedding.h`. */
#ifndef C28_WORLD_H
#define C28_WORLD_H
#include <pthread.h>
#include <assert.h>

int  verif_cas(void *volatile *l, void *o, void *n);
int  verif_cas32(volatile int *l, int o, int n);          /* the `int` lock of PY_VERSION_HEX < 3.12 */
void *verif_icx(void *volatile *l, void *n, void *o);     /* InterlockedCompareExchangePointer: returns the old value */
void verif_barrier(void);
void verif_assert(int ok, const char *text);
int  verif_mutex_init(void *m);
int  verif_mutex_lock(void *m);
int  verif_mutex_unlock(void *m);
void verif_event(const char *fmt, ...);
void verif_point(const char *label);
int  verif_tid(void);
int  verif_modinit_fails(int lib);      /* init kind M: the module init raises (e.g. _cffi_backend missing) */

/* the stub of _cffi_backend's cffi_call_python, one per library */
struct _cffi_externpy_s;
void verif_call_python(int lib, struct _cffi_externpy_s *e, char *args);

#undef assert
#define assert(x) verif_assert(!!(x), #x)
/* type-generic like the builtin: the operand is a pointer-sized slot (3.12+: tp_as_buffer, and the
   `lock` of _cffi_acquire_reentrant_mutex) or an int (< 3.12: tp_version_tag) */
#define __sync_bool_compare_and_swap(l, o, n) \
        (sizeof(*(l)) == sizeof(int) \
         ? verif_cas32((volatile int *)(l), (int)(long)(o), (int)(long)(n)) \
         : verif_cas((void *volatile *)(l), (void *)(long)(o), (void *)(long)(n)))
#define __sync_synchronize() verif_barrier()
#define pthread_mutexattr_init(a)        ((void)(a), 0)
#define pthread_mutexattr_settype(a, t)  ((void)(a), 0)
#define pthread_mutex_init(m, a)         verif_mutex_init((void *)(m))
#define pthread_mutex_lock(m)            verif_mutex_lock((void *)(m))
#define pthread_mutex_unlock(m)          verif_mutex_unlock((void *)(m))
#endif
