/* C36: threads that Python did not create.  Each slot owns one pthread parked on a
 * semaphore; the driver (Python main thread) issues one command at a time.
 *
 * A command either runs to completion (ft_call / ft_callk / ft_exit) or is split in two
 * halves (ft_enter ... ft_leave): the Python body of the callback calls ft_park(i), a plain C
 * function (so cffi releases the GIL around it), which tells the driver "I am inside" and
 * blocks on a second semaphore until ft_leave(i).  Still one driver-issued command at a time.
 *
 * The callback of a slot can be entered through two function pointers (fn[0]: a libffi
 * closure made by ffi.callback, fn[1]: the C stub of an extern "Python" function) and either
 * bare or wrapped in the C caller's own PyGILState_Ensure()/PyGILState_Release() pair. */
#include <Python.h>
#include <pthread.h>
#include <semaphore.h>
#include <string.h>

typedef int (*cb_t)(int);
struct slot { pthread_t t; sem_t go, done, resume; int cmd; int arg; int result; cb_t fn[2];
              int alive; volatile int parked; };
#define NSLOT 8
static struct slot S[NSLOT];

#define CMD_EXIT   0
#define CMD_CALL   1          /* + 2 * kind + 4 * wrap */

static void *body(void *p)
{
    struct slot *s = (struct slot *)p;
    for (;;) {
        sem_wait(&s->go);
        if (s->cmd == CMD_EXIT) {
            sem_post(&s->done);
            return NULL;
        }
        {
            cb_t fn = s->fn[(s->cmd >> 1) & 1];
            if (s->cmd & 4) {
                /* the C caller owns a CPython-made thread state around the callback */
                PyGILState_STATE st = PyGILState_Ensure();
                s->result = fn(s->arg);
                PyGILState_Release(st);
            }
            else
                s->result = fn(s->arg);     /* the cffi callback, from a non-Python thread */
        }
        sem_post(&s->done);
    }
}

int ft_spawn2(int i, cb_t cb, cb_t xcb)
{
    struct slot *s = &S[i];
    if (s->alive) return -1;
    memset(s, 0, sizeof *s);
    sem_init(&s->go, 0, 0);
    sem_init(&s->done, 0, 0);
    sem_init(&s->resume, 0, 0);
    s->fn[0] = cb;
    s->fn[1] = xcb;
    s->alive = 1;
    return pthread_create(&s->t, NULL, body, s);
}

int ft_spawn(int i, cb_t cb)
{
    return ft_spawn2(i, cb, cb);
}

/* run one callback to completion: kind 0 = closure, 1 = extern "Python" stub;
   wrap 1 = inside the thread's own PyGILState_Ensure/Release */
int ft_callk(int i, int arg, int kind, int wrap)
{
    struct slot *s = &S[i];
    if (!s->alive || s->parked) return -1;
    s->cmd = CMD_CALL + 2 * (kind & 1) + 4 * (wrap & 1); s->arg = arg;
    sem_post(&s->go);
    sem_wait(&s->done);
    return s->result;
}

int ft_call(int i, int arg)
{
    return ft_callk(i, arg, 0, 0);
}

/* first half of a call: returns 1 when the thread is parked inside the callback (ft_park was
   called by the body), 0 if the callback returned without parking */
int ft_enter(int i, int arg, int kind, int wrap)
{
    struct slot *s = &S[i];
    if (!s->alive || s->parked) return -1;
    s->cmd = CMD_CALL + 2 * (kind & 1) + 4 * (wrap & 1); s->arg = arg;
    sem_post(&s->go);
    sem_wait(&s->done);
    return s->parked;
}

/* called by the Python body of the callback, in thread i, GIL released by cffi */
int ft_park(int i)
{
    struct slot *s = &S[i];
    s->parked = 1;
    sem_post(&s->done);
    sem_wait(&s->resume);
    s->parked = 0;
    return 0;
}

/* second half: let the callback return; gives its result */
int ft_leave(int i)
{
    struct slot *s = &S[i];
    if (!s->alive || !s->parked) return -1;
    sem_post(&s->resume);
    sem_wait(&s->done);
    return s->result;
}

int ft_exit(int i)
{
    struct slot *s = &S[i];
    if (!s->alive || s->parked) return -1;
    s->cmd = CMD_EXIT;
    sem_post(&s->go);
    sem_wait(&s->done);
    pthread_join(s->t, NULL);       /* the thread is completely gone, its TLS destructors have run */
    s->alive = 0;
    return 0;
}

/* stop everything a previous (possibly abandoned) history left behind */
int ft_cleanup(void)
{
    int i, n = 0;
    for (i = 0; i < NSLOT; i++) {
        if (S[i].alive && S[i].parked) { ft_leave(i); n++; }
        if (S[i].alive) { ft_exit(i); n++; }
    }
    return n;
}

/* in the child of a fork(): the pthreads do not exist any more, forget them */
void ft_forget(void)
{
    memset(S, 0, sizeof S);
}
