/* C36: threads that Python did not create.  Each slot owns one pthread parked on a
 * semaphore; the driver (Python main thread) issues one command at a time. */
#include <pthread.h>
#include <semaphore.h>
#include <string.h>

typedef int (*cb_t)(int);
struct slot { pthread_t t; sem_t go, done; int cmd; int arg; int result; cb_t cb; int alive; };
static struct slot S[4];

static void *body(void *p)
{
    struct slot *s = (struct slot *)p;
    for (;;) {
        sem_wait(&s->go);
        if (s->cmd == 0) {            /* exit */
            sem_post(&s->done);
            return NULL;
        }
        s->result = s->cb(s->arg);     /* the cffi callback, from a non-Python thread */
        sem_post(&s->done);
    }
}

int ft_spawn(int i, cb_t cb)
{
    struct slot *s = &S[i];
    if (s->alive) return -1;
    memset(s, 0, sizeof *s);
    sem_init(&s->go, 0, 0);
    sem_init(&s->done, 0, 0);
    s->cb = cb;
    s->alive = 1;
    return pthread_create(&s->t, NULL, body, s);
}

int ft_call(int i, int arg)
{
    struct slot *s = &S[i];
    if (!s->alive) return -1;
    s->cmd = 1; s->arg = arg;
    sem_post(&s->go);
    sem_wait(&s->done);
    return s->result;
}

int ft_exit(int i)
{
    struct slot *s = &S[i];
    if (!s->alive) return -1;
    s->cmd = 0;
    sem_post(&s->go);
    sem_wait(&s->done);
    pthread_join(s->t, NULL);       /* the thread is completely gone, its TLS destructors have run */
    s->alive = 0;
    return 0;
}
