/* C30 -- stand-alone exhaustive driver for src/c/parse_c_type.c.
 *
 * Compiled (by vlib/props/c30.py, at run time) as an ASan+UBSan executable with
 *   -I<REPO>/src/c -I<scratch containing c30_syms.h>
 * It #includes the REAL parse_c_type.c and commontypes.c of the tree under
 * test (only the five CPython calls used by b__get_common_types are stubbed).
 *
 * Every sequence of <= maxlen symbols over the alphabet SYM[] (c30_syms.h,
 * generated from the Python side: one representative byte per byte class the
 * tokenizer distinguishes, plus keywords) is
 *   - copied into a heap block of exactly strlen+1 bytes (any read past the
 *     terminating NUL, or before the first byte, traps),
 *   - parsed with an output array of exactly OUTMAX slots (heap, exact size),
 *   - parsed again with an output array of exactly n and of exactly n-1 slots,
 *     n being the number of slots the first parse used: the n-slot parse must
 *     behave identically, the (n-1)-slot parse must fail; neither may touch
 *     memory outside the array (the bound in write_ds is straddled for every
 *     string).
 * Sanitizer reports are tagged with the current input through
 * __asan_on_error / __ubsan_on_report.  Statistics and the list of accepted
 * strings live in MAP_SHARED files so that they survive a fatal signal; the
 * driver then resumes after the offending string.
 *
 * usage: harness <maxlen> <accmax> <job> <njobs> <statfile> <accfile> <mode> [resume]
 * mode: "sym"   the class/keyword alphabet of c30_syms.h
 *       "sym2"  the second (keyword / standard-name) alphabet of c30_syms.h
 *       "bytes" every byte value 1..255 as a one-byte symbol (shallow, wide)
 *       "ascii" the 97 bytes \t \n 0x20..0x7e
 *       "list:<file>"  no enumeration: the explicit strings of <file>
 *               (u32 count, then per string u16 length + bytes, no NUL inside,
 *               at most MAXBYTES-1 bytes each); maxlen is ignored; the "sequence"
 *               journalled / reported for string number i is the 4 bytes of i
 *               (big endian)
 */
#define _GNU_SOURCE
#include <stdint.h>
#include <stddef.h>
#include <stdio.h>
#include <stdlib.h>
#include <string.h>
#include <unistd.h>
#include <fcntl.h>
#include <sys/mman.h>
#include <sys/stat.h>

/* ---- the five CPython names used by commontypes.c:b__get_common_types ---- */
typedef struct c30_object { int dummy; } PyObject;
static PyObject c30_none;
#define Py_None (&c30_none)
#define PyUnicode_FromString(s)        ((void)(s), (PyObject *)0)
#define PyDict_SetItemString(d, k, v)  ((void)(d), (void)(k), (void)(v), 0)
#define Py_DECREF(o)                   ((void)(o))
#define Py_INCREF(o)                   ((void)(o))

#include "parse_c_type.c"      /* the code under test (found through -I<REPO>/src/c) */
#include "commontypes.c"

#include "c30_syms.h"          /* NSYM, SYM[], SYMLEN[] */

static int nsym;
static const char *sym[256];
static int symlen[256];
static char bytesyms[256][2];

#define MAXL      8
#define OUTMAX    64
#define MAXBYTES  (MAXL * 16 + 1)
#define MAXMSG    64
#define MAXVIOL   32
#define ACC_CAP   (96u << 20)

/* ---- the context handed to the parser ------------------------------------ */
/* typedefs t, tt; struct t, union tt, struct ta (opaque); enums t, tt;
   globals (sorted): a=0, a0=2**63, a3=function, a_=getter answering "2",
   aa=3, ax=-1, x=2 (enumerator), xx=-1 (enumerator).  Names are prefixes of
   each other on purpose (search_sorted compares with strncmp + NUL test). */
static int g_zero(struct _cffi_getconst_s *g)  { g->value = 0; return 0; }
static int g_big(struct _cffi_getconst_s *g)   { g->value = 1ULL << 63; return 0; }
static int g_odd(struct _cffi_getconst_s *g)   { g->value = 5; return 2; }
static int g_three(struct _cffi_getconst_s *g) { g->value = 3; return 0; }
static int g_neg(struct _cffi_getconst_s *g)   { g->value = (unsigned long long)-1LL; return 1; }
static int g_two(struct _cffi_getconst_s *g)   { g->value = 2; return 0; }

static const struct _cffi_global_s c30_globals[] = {
    { "a",  (void *)g_zero,  _CFFI_OP(_CFFI_OP_CONSTANT_INT, -1), 0 },
    { "a0", (void *)g_big,   _CFFI_OP(_CFFI_OP_CONSTANT_INT, -1), 0 },
    { "a3", (void *)0,       _CFFI_OP(_CFFI_OP_CPYTHON_BLTN_O, 0), 0 },
    { "a_", (void *)g_odd,   _CFFI_OP(_CFFI_OP_CONSTANT_INT, -1), 0 },
    { "aa", (void *)g_three, _CFFI_OP(_CFFI_OP_CONSTANT_INT, -1), 0 },
    { "ax", (void *)g_neg,   _CFFI_OP(_CFFI_OP_CONSTANT_INT, -1), 0 },
    { "x",  (void *)g_two,   _CFFI_OP(_CFFI_OP_ENUM, -1), 0 },
    { "xx", (void *)g_neg,   _CFFI_OP(_CFFI_OP_ENUM, -1), 0 },
};
static const struct _cffi_struct_union_s c30_su[] = {
    { "t",  0, 0,                          4, 4, 0, 1 },
    { "ta", 1, _CFFI_F_OPAQUE,             (size_t)-1, -1, -1, 0 },
    { "tt", 2, _CFFI_F_UNION,              4, 4, 1, 2 },
};
static const struct _cffi_enum_s c30_enums[] = {
    { "t",  3, _CFFI_PRIM_UINT, "x" },
    { "tt", 4, _CFFI_PRIM_INT,  "xx" },
};
static const struct _cffi_typename_s c30_typenames[] = {
    { "t",  5 },
    { "tt", 6 },
};
static struct _cffi_type_context_s c30_ctx;

/* ---- shared statistics ---------------------------------------------------- */
struct viol { int kind; int len; unsigned char seq[MAXL]; long a, b; };
struct stats {
    unsigned long long evaluated;               /* strings parsed */
    unsigned long long parses;                  /* parser invocations */
    unsigned long long accepted[MAXL + 1];
    unsigned long long rejected[MAXL + 1];
    unsigned long long maxslots;                /* largest n seen */
    unsigned long long limit_hits;              /* (n-1)-slot runs answering "complexity limit" */
    unsigned long long other_small_errors;      /* (n-1)-slot runs failing with another message */
    unsigned long long san_reports;
    unsigned long long acc_bytes;               /* bytes used in the accepted file */
    unsigned long long acc_overflow;
    int nmsg;
    char msg[MAXMSG][96];
    unsigned long long msgcount[MAXMSG];
    int nviol;
    struct viol viol[MAXVIOL];
    /* journal: the string being parsed right now */
    int cur_len;
    unsigned char cur_seq[MAXL];
    int cur_phase;
    int finished;
};
static struct stats *S;
static unsigned char *ACC;

static void die(const char *m) { fprintf(stderr, "C30-HARNESS-ERROR %s\n", m); _exit(3); }

static void *map_file(const char *fn, size_t size, int keep)
{
    int fd = open(fn, O_RDWR | O_CREAT, 0600);
    void *p;
    if (fd < 0) die("open");
    if (!keep && ftruncate(fd, 0) < 0) die("ftruncate0");
    if (ftruncate(fd, (off_t)size) < 0) die("ftruncate");
    p = mmap(NULL, size, PROT_READ | PROT_WRITE, MAP_SHARED, fd, 0);
    if (p == MAP_FAILED) die("mmap");
    close(fd);
    return p;
}

static void tag_report(const char *which)
{
    int i;
    S->san_reports++;
    fprintf(stderr, "\nC30-%s-INPUT phase=%d seq=", which, S->cur_phase);
    for (i = 0; i < S->cur_len; i++)
        fprintf(stderr, "%s%d", i ? "," : "", S->cur_seq[i]);
    fprintf(stderr, "\n");
    fflush(stderr);
}
void __asan_on_error(void)   { if (S) tag_report("ASAN"); }
void __ubsan_on_report(void) { if (S) tag_report("UBSAN"); }

static void add_viol(int kind, int len, const unsigned char *seq, long a, long b)
{
    struct viol *v;
    if (S->nviol >= MAXVIOL) { S->nviol++; return; }
    v = &S->viol[S->nviol++];
    v->kind = kind; v->len = len; v->a = a; v->b = b;
    memcpy(v->seq, seq, len);
}

static void count_msg(const char *m)
{
    int i;
    for (i = 0; i < S->nmsg; i++)
        if (strcmp(S->msg[i], m) == 0) { S->msgcount[i]++; return; }
    if (S->nmsg >= MAXMSG) die("too many distinct messages");
    strncpy(S->msg[S->nmsg], m, 95);
    S->msgcount[S->nmsg++] = 1;
}

/* exact-size heap blocks, allocated once */
static char *strblock[MAXBYTES + 1];            /* strblock[k]: malloc(k) */
static _cffi_opcode_t *outblock[OUTMAX + 1];    /* outblock[k]: malloc(k * sizeof) */
static _cffi_opcode_t ref_out[OUTMAX];

static int run_parse(const char *input, int nslots, size_t *used,
                     struct _cffi_parse_info_s *info)
{
    size_t output_index = 0;
    int r;
    info->ctx = &c30_ctx;
    info->output = outblock[nslots];
    info->output_size = nslots;
    info->error_location = 0;
    info->error_message = NULL;
    S->parses++;
    r = parse_c_type_from(info, &output_index, input);
    *used = output_index;
    return r;
}

static void process_string(const char *buf, int nbytes, int len, const unsigned char *seq, int accmax);

static void one_string(int len, const unsigned char *seq, int accmax)
{
    char buf[MAXBYTES];
    int i, nbytes = 0;

    for (i = 0; i < len; i++) {
        memcpy(buf + nbytes, sym[seq[i]], symlen[seq[i]]);
        nbytes += symlen[seq[i]];
    }
    buf[nbytes] = 0;
    process_string(buf, nbytes, len, seq, accmax);
}

static void process_string(const char *buf, int nbytes, int len, const unsigned char *seq, int accmax)
{
    int r1, r2, r3;
    size_t n1, n2, n3;
    char *input;
    struct _cffi_parse_info_s i1, i2, i3;

    /* journal first */
    S->cur_len = len;
    memcpy(S->cur_seq, seq, len);
    S->cur_phase = 1;

    input = strblock[nbytes + 1];
    memcpy(input, buf, nbytes + 1);

    r1 = run_parse(input, OUTMAX, &n1, &i1);
    S->evaluated++;
    if (n1 > S->maxslots) S->maxslots = n1;
    if (n1 > OUTMAX) { add_viol(1, len, seq, (long)n1, r1); return; }      /* output_index beyond size */
    if (r1 >= 0) {
        if ((size_t)r1 >= n1) add_viol(2, len, seq, r1, (long)n1);          /* result index not written */
        S->accepted[len]++;
        count_msg("(accepted)");
        if (len <= accmax) {
            if (S->acc_bytes + len + 1 > ACC_CAP) S->acc_overflow = 1;
            else {
                ACC[S->acc_bytes] = (unsigned char)len;
                memcpy(ACC + S->acc_bytes + 1, seq, len);
                S->acc_bytes += len + 1;
            }
        }
    }
    else {
        S->rejected[len]++;
        if (i1.error_message == NULL) add_viol(3, len, seq, r1, 0);         /* failure without message */
        else {
            count_msg(i1.error_message);
            if (i1.error_location > (size_t)nbytes)
                add_viol(4, len, seq, (long)i1.error_location, nbytes);     /* caret outside the string */
            if (strcmp(i1.error_message, "internal type complexity limit reached") == 0)
                add_viol(5, len, seq, (long)n1, 0);                         /* OUTMAX too small: harness bound */
        }
    }
    memcpy(ref_out, outblock[OUTMAX], n1 * sizeof(_cffi_opcode_t));

    /* exactly n slots: identical behaviour */
    S->cur_phase = 2;
    r2 = run_parse(input, (int)n1, &n2, &i2);
    if (r2 != r1 || n2 != n1 ||
        (r1 < 0 && (i2.error_message != i1.error_message || i2.error_location != i1.error_location)) ||
        memcmp(ref_out, outblock[n1], n1 * sizeof(_cffi_opcode_t)) != 0)
        add_viol(6, len, seq, r2, (long)n2);

    /* exactly n-1 slots: must fail, must not write slot n-1 */
    if (n1 >= 1) {
        S->cur_phase = 3;
        r3 = run_parse(input, (int)n1 - 1, &n3, &i3);
        if (r3 >= 0 || n3 > n1 - 1)
            add_viol(7, len, seq, r3, (long)n3);
        else if (i3.error_message &&
                 strcmp(i3.error_message, "internal type complexity limit reached") == 0)
            S->limit_hits++;
        else
            S->other_small_errors++;
    }
    S->cur_phase = 0;
}

int main(int argc, char **argv)
{
    int maxlen, accmax, job, njobs, L, i, resume = 0;
    unsigned char seq[MAXL];
    const char *listfile = NULL;

    if (argc < 7) die("usage");
    maxlen = atoi(argv[1]); accmax = atoi(argv[2]);
    job = atoi(argv[3]); njobs = atoi(argv[4]);
    if (argc < 8) die("usage");
    resume = (argc >= 9 && strcmp(argv[8], "resume") == 0);
    if (strcmp(argv[7], "sym") == 0) {
        nsym = NSYM;
        for (i = 0; i < NSYM; i++) { sym[i] = SYM[i]; symlen[i] = SYMLEN[i]; }
    }
    else if (strcmp(argv[7], "sym2") == 0) {
        nsym = NSYM2;
        for (i = 0; i < NSYM2; i++) { sym[i] = SYM2[i]; symlen[i] = SYM2LEN[i]; }
    }
    else if (strncmp(argv[7], "list:", 5) == 0) {
        listfile = argv[7] + 5;
        nsym = 256;
    }
    else {
        int lo = 1, hi = 255, c;
        nsym = 0;
        for (c = lo; c <= hi; c++) {
            if (strcmp(argv[7], "ascii") == 0 && !(c == '\t' || c == '\n' || (c >= 0x20 && c <= 0x7e)))
                continue;
            bytesyms[nsym][0] = (char)c; bytesyms[nsym][1] = 0;
            sym[nsym] = bytesyms[nsym]; symlen[nsym] = 1;
            nsym++;
        }
    }
    if (maxlen < 1 || maxlen > MAXL) die("maxlen");

    S = map_file(argv[5], sizeof(struct stats), resume);
    ACC = map_file(argv[6], ACC_CAP, resume);
    if (!resume) memset(S, 0, sizeof(*S));

    c30_ctx.globals = c30_globals;
    c30_ctx.num_globals = sizeof(c30_globals) / sizeof(c30_globals[0]);
    c30_ctx.struct_unions = c30_su;
    c30_ctx.num_struct_unions = sizeof(c30_su) / sizeof(c30_su[0]);
    c30_ctx.enums = c30_enums;
    c30_ctx.num_enums = sizeof(c30_enums) / sizeof(c30_enums[0]);
    c30_ctx.typenames = c30_typenames;
    c30_ctx.num_typenames = sizeof(c30_typenames) / sizeof(c30_typenames[0]);

    for (i = 0; i <= MAXBYTES; i++) strblock[i] = malloc(i);
    for (i = 0; i <= OUTMAX; i++) outblock[i] = malloc(i * sizeof(_cffi_opcode_t));

    if (listfile != NULL) {
        /* explicit strings */
        FILE *lf = fopen(listfile, "rb");
        unsigned char hdr[4], lh[2];
        unsigned long count, k, first = 0;
        static char lbuf[MAXBYTES];
        if (lf == NULL || fread(hdr, 1, 4, lf) != 4) die("list file");
        count = ((unsigned long)hdr[0] << 24) | (hdr[1] << 16) | (hdr[2] << 8) | hdr[3];
        if (resume)    /* skip the string that killed the previous run */
            first = (((unsigned long)S->cur_seq[0] << 24) | (S->cur_seq[1] << 16) |
                     (S->cur_seq[2] << 8) | S->cur_seq[3]) + 1;
        for (k = 0; k < count; k++) {
            int n;
            if (fread(lh, 1, 2, lf) != 2) die("list file: truncated");
            n = (lh[0] << 8) | lh[1];
            if (n > MAXBYTES - 1) die("list file: string too long");
            if (n > 0 && fread(lbuf, 1, n, lf) != (size_t)n) die("list file: truncated string");
            lbuf[n] = 0;
            if (strlen(lbuf) != (size_t)n) die("list file: NUL inside a string");
            if (k < first || (int)(k % (unsigned long)njobs) != job)
                continue;
            seq[0] = (unsigned char)(k >> 24); seq[1] = (unsigned char)(k >> 16);
            seq[2] = (unsigned char)(k >> 8);  seq[3] = (unsigned char)k;
            process_string(lbuf, n, 4, seq, accmax);
        }
        fclose(lf);
        S->finished = 1;
        msync(S, sizeof(*S), MS_SYNC);
        return 0;
    }

    /* enumeration: length L ascending; the first min(L,2) symbols select the job */
    if (resume) {
        L = S->cur_len;
        memcpy(seq, S->cur_seq, L);
        goto advance;                      /* skip the string that killed the previous run */
    }
    for (L = 1; L <= maxlen; L++) {
        memset(seq, 0, sizeof(seq));
        while (1) {
            {
                int pn = (L >= 2) ? seq[0] * nsym + seq[1] : seq[0];
                if (pn % njobs == job)
                    one_string(L, seq, accmax);
                else if (L >= 2) {
                    /* skip the whole block below this 2-symbol prefix */
                    for (i = 2; i < L; i++) seq[i] = (unsigned char)(nsym - 1);
                }
            }
 advance:
            for (i = L - 1; i >= 0; i--) {
                if (++seq[i] < nsym) break;
                seq[i] = 0;
            }
            if (i < 0) break;
        }
    }
    S->finished = 1;
    msync(S, sizeof(*S), MS_SYNC);
    return 0;
}
