#include <pthread.h>
#include <stdio.h>
#include <stdlib.h>
extern int c28_f(int);
static pthread_barrier_t bar;
static int results[8];
static void *body(void *p) { int i = (int)(long)p; pthread_barrier_wait(&bar); results[i] = c28_f(7); return NULL; }
int main(int argc, char **argv) {
    int n = atoi(argv[1]), i; pthread_t t[8];
    pthread_barrier_init(&bar, NULL, n);
    for (i = 0; i < n; i++) pthread_create(&t[i], NULL, body, (void *)(long)i);
    for (i = 0; i < n; i++) pthread_join(t[i], NULL);
    for (i = 0; i < n; i++) printf("result %d\n", results[i]);
    printf("again %d\n", c28_f(1));
    return 0;
}
