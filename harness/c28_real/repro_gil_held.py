# C28: a first call made by a thread that OWNS the GIL, while another thread runs the embedding
# init code, never returns (nor does the init code): _cffi_start_python() blocks in
# pthread_mutex_lock(&_cffi_embed_startup_lock) with the GIL held, the initialising thread owns
# that mutex and waits for the GIL.
# run: PYTHONPATH=<be-plain dir>:/repo/src /venv/bin/python repro_c28_gil_held.py
# expected by the property: prints "results [8, 8]".  observed: killed by SIGALRM after 10 s
# (exit status -14 / "Alarm clock"); with PyDLL replaced by CDLL it prints the results.
import cffi, ctypes, os, signal, sys, tempfile, threading

d = tempfile.mkdtemp()
ffi = cffi.FFI()
ffi.embedding_api("int c28_f(int);")
ffi.embedding_init_code("""
from _c28repro import ffi
import __main__
@ffi.def_extern()
def c28_f(x):
    return x + 1
__main__.started.set()      # the init code is running (this thread owns the start-up mutex)
__main__.go.wait()          # blocking call: releases the GIL, as any init code may
""")
ffi.set_source("_c28repro", "")
so = ffi.compile(tmpdir=d, target="libc28repro.*")
sys.path.insert(0, d)

signal.alarm(10)                      # default action: the deadlocked process cannot run a handler
sys.setswitchinterval(1000.0)         # only to make the schedule deterministic
free = ctypes.CDLL(so)                # releases the GIL around the call
held = ctypes.PyDLL(so) if "--control" not in sys.argv else free   # PyDLL: keeps the GIL
started, go, results = threading.Event(), threading.Event(), {}

def t_free():
    results[0] = free.c28_f(7)        # first call: runs the init code

def t_held():
    started.wait()
    go.set()
    results[1] = held.c28_f(7)        # first call of this thread, GIL held

ts = [threading.Thread(target=t_free), threading.Thread(target=t_held)]
[t.start() for t in ts]
[t.join() for t in ts]
print("results", [results[i] for i in sorted(results)])
