"""C28 real-library runs with the library loaded into a RUNNING interpreter (initial world states P / H of
the stub exploration; doc/source/embedding.rst, "Testing", endorses loading the DLL from Python).

usage: host.py <libc28real.so> free <n>    n Python threads, released together, each calls c28_f(7) through
                                           ctypes.CDLL (the GIL is released around the call: world P)
       host.py <libc28real.so> held        one CDLL caller starts the init code (C28_KIND=handshake); when the
                                           init code is running, a second thread calls c28_f(7) through
                                           ctypes.PyDLL, i.e. while OWNING the GIL (world H)
       host.py <libc28real.so> ctrl        the same handshake, but the second caller also uses ctypes.CDLL
                                           (control: the only difference to `held` is who owns the GIL)
Prints `result <r>` per caller and `again <r>` for a later call.  A process that cannot finish is killed by
its own SIGALRM (default action, no Python handler: works even when no thread can take the GIL).
"""
import ctypes, signal, sys, threading

so, mode = sys.argv[1], sys.argv[2]
signal.alarm(int(sys.argv[4]) if len(sys.argv) > 4 else 60)
free = ctypes.CDLL(so)
results = {}

if mode == "free":
    n = int(sys.argv[3])
    bar = threading.Barrier(n)

    def body(i):
        bar.wait()
        results[i] = free.c28_f(7)
    ts = [threading.Thread(target=body, args=(i,)) for i in range(n)]
else:
    # Deterministic: no thread switch can be forced on the GIL holder between go.set() and its C call.
    sys.setswitchinterval(1000.0)
    held = ctypes.PyDLL(so) if mode == "held" else free
    started = threading.Event()      # set by the init code (it finds them in __main__)
    go = threading.Event()           # the init code waits for it (GIL released while waiting)

    def t_free():
        results[0] = free.c28_f(7)

    def t_held():
        started.wait()
        go.set()
        results[1] = held.c28_f(7)   # first call of this thread, made with the GIL held
    ts = [threading.Thread(target=t_free), threading.Thread(target=t_held)]
for t in ts:
    t.start()
for t in ts:
    t.join()
for i in sorted(results):
    print("result %d" % results[i])
print("again %d" % free.c28_f(1))
sys.stdout.flush()
