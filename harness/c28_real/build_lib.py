import cffi, os, sys
ffi = cffi.FFI()
ffi.embedding_api("int c28_f(int);")
ffi.embedding_init_code(r"""
import os, sys
from _c28real import ffi, lib
kind = os.environ.get("C28_KIND", "ok")
with open(os.environ["C28_LOG"], "a") as f:
    f.write("init-start\n")
@ffi.def_extern()
def c28_f(x):
    return x + 1
if kind == "recursive":
    r = lib.c28_f(3)
    with open(os.environ["C28_LOG"], "a") as f:
        f.write("recursive-result %d\n" % r)
if kind == "slow":
    import time
    time.sleep(0.05)
if kind == "handshake":
    # host.py held: tell the host that the init code runs, then wait (GIL released) for its go
    import __main__
    __main__.started.set()
    __main__.go.wait()
with open(os.environ["C28_LOG"], "a") as f:
    f.write("init-end %s\n" % kind)
if kind == "fail":
    raise RuntimeError("init code fails on purpose")
""")
ffi.set_source("_c28real", "")
out = ffi.compile(tmpdir=sys.argv[1], target="libc28real.*", verbose=False)
print(out)
