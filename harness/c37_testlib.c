/* C37 test library: two functions, two globals.  Every history dlopen()s a
   private copy of the compiled file so that dlclose() really unmaps it. */
int c37_v = 10;
long c37_w = 20;

int c37_f(int x)
{
    return x + c37_v;
}

long c37_g(long x)
{
    return 2 * x + c37_w;
}
