/* C37 test library.  Every history dlopen()s a private copy of the compiled file
   so that dlclose() really unmaps it.

   c37_v / c37_w / c37_f / c37_g   the base alphabet (two scalar globals, two functions)
   c37_arr ... c37_va, c37_k       one symbol per *kind* (array, struct, pointer, function
                                   pointer, array of unknown length in the cdef, variadic
                                   function, non-integer constant): the "kinds" family binds
                                   the letters v / f of the alphabet to one of them.  Every
                                   variable kind starts with the observable value 10.
   c37_x / c37_h                   declared to cffi only by a *later* ffi.cdef() (family cdef-more)

   No libc is used (the object is linked with -nostdlib): variadic access goes through
   the compiler builtins.  The same source, with the prefix c37_ replaced by c37n_, is
   also loaded once with RTLD_GLOBAL for the ffi.dlopen(None) modes. */
int c37_v = 10;
long c37_w = 20;

int c37_f(int x)
{
    return x + c37_v;
}

long c37_g(long x)
{
    return 2 * x + c37_w;
}

long c37_arr[4] = {10, 11, 12, 13};

struct c37_s { int a; long b; };
struct c37_s c37_st = {10, 21};

static int c37_cell = 10;
int *c37_p = &c37_cell;

int (*c37_fp)(int) = c37_f;

long c37_ua[3] = {10, 5, 6};

const double c37_k = 2.5;

int c37_va(int n, ...)
{
    __builtin_va_list ap;
    int r;
    __builtin_va_start(ap, n);
    r = n + __builtin_va_arg(ap, int) + c37_v;
    __builtin_va_end(ap);
    return r;
}

int c37_x = 30;

int c37_h(int x)
{
    return x + c37_x;
}
