/* C15 helper: functions whose first argument is a 'T *' for every character
   element type.  cffi converts a Python bytes/str argument into a temporary
   C string; the function copies n units of what it received into dst so that
   the check can look at the units the callee really saw. */
#include <string.h>
#include <wchar.h>
#include <uchar.h>

#define COPY(NAME, T) \
    void c15_copy_##NAME(const T *src, T *dst, long n) { memcpy(dst, src, (size_t)n * sizeof(T)); }

COPY(char, char)
COPY(schar, signed char)
COPY(uchar, unsigned char)
COPY(wchar, wchar_t)
COPY(char16, char16_t)
COPY(char32, char32_t)

int c15_sizeof_wchar(void) { return (int)sizeof(wchar_t); }
