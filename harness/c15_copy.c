/* C15 helper: functions whose first argument is a 'T *' for every character
   element type.  cffi converts a Python bytes/str argument into a temporary
   C string; the function copies n units of what it received into dst so that
   the check can look at the units the callee really saw.

   The same text is compiled twice: as a plain shared object (gcc; in-line ABI
   path "arg") and as the source of an API-mode module (path "arg_api", where
   the conversion goes through _cffi_convert_array_argument). */
#include <string.h>
#include <stddef.h>
#include <stdint.h>
#include <wchar.h>
#include <uchar.h>

#define COPY(NAME, T) \
    void c15_copy_##NAME(const T *src, T *dst, long n) { memcpy(dst, src, (size_t)n * sizeof(T)); } \
    struct c15_flexref_##NAME { int n; T a[]; }; \
    int c15_flexoff_##NAME(void) { return (int)offsetof(struct c15_flexref_##NAME, a); }

COPY(char, char)
COPY(schar, signed char)
COPY(uchar, unsigned char)
COPY(wchar, wchar_t)
COPY(char16, char16_t)
COPY(char32, char32_t)
COPY(int8, int8_t)
COPY(uint8, uint8_t)

int c15_sizeof_wchar(void) { return (int)sizeof(wchar_t); }
